"""Seeded structured generators of TEAL programs (fragment of C01/C02/C03/C06-C10) and adversarial layouts.

Every random choice derives from the `random.Random` passed in, so a case replays from (seed, index).
A generated program carries the set of *shape tags* it contains: syntactic features that reading the code
showed to be handled unsoundly (DESIGN §11); the default stream avoids them, the shape stream seeks them.
"""
import random

ADDRS = [
    "ATTACKERATTACKERATTACKERATTACKERATTACKERATTACKERATTACKER55",  # never used in programs: the fresh address
    "6ZHGHH5Z5CTPCF5WCESXMGRSVK7QJETR63M3NY5FJCUYDHO57VTCMJOBGY",
    "7777777777777777777777777777777777777777777777777774MSJUVU",
    "GD64YIY3TWGDMCNPP553DZPPR6LDUSFQOIJVFDPPXWEG3FVOJCCDBBHU5A",
]
FRESH = ADDRS[0]
LITERALS = ADDRS[1:]
ZERO = "AAAAAAAAAAAAAAAAAAAAAAAAAAAAAAAAAAAAAAAAAAAAAAAAAAAAY5HFKQ"

ADDR_FIELDS = ["RekeyTo", "CloseRemainderTo", "AssetCloseTo", "Sender"]
OPS = ["==", "!=", "<", "<=", ">", ">="]
TYPE_NAMES = {1: "pay", 2: "keyreg", 3: "acfg", 4: "axfer", 5: "afrz", 6: "appl"}
OC_NAMES = {0: "NoOp", 1: "OptIn", 2: "CloseOut", 3: "ClearState", 4: "UpdateApplication", 5: "DeleteApplication"}
OPAQUE_FIELDS = ["Amount", "FirstValid", "LastValid", "NumAppArgs", "AssetAmount"]


class Cfg:
    """generation parameters"""
    def __init__(self, **kw):
        self.max_stmts = 5
        self.max_depth = 3
        self.max_subs = 3
        self.shapes = False          # allow known-defect shapes
        self.gtxn = True             # reads of other group members
        self.direct_only = False     # direct-check fragment (C03/C06 exactness): no opaque operands under && ||
        self.noise = True
        self.intc = True
        self.kinds = ("size", "index", "fee", "type", "oc", "appid", "addr")
        self.__dict__.update(kw)


class Gen:
    def __init__(self, rng, cfg=None):
        self.r = rng
        self.cfg = cfg or Cfg()
        self.lab = 0
        self.tags = set()
        self.subs = []          # (name, body lines)
        self.intcblock = None   # list of constants when the program uses an entry intcblock
        self.sub_names = []
        self.depth_calls = 0

    # -- helpers
    def label(self, base="l"):
        self.lab += 1
        return f"{base}{self.lab}"

    def chance(self, p):
        return self.r.random() < p

    def push_int(self, n):
        """one of int / pushint / intc spelling of the literal n"""
        c = self.r.random()
        if self.intcblock is not None and self.cfg.intc and c < 0.25:
            if n not in self.intcblock and len(self.intcblock) < 12:
                self.intcblock.append(n)
            if n in self.intcblock:
                i = self.intcblock.index(n)
                return [f"intc_{i}" if i < 4 and self.chance(0.5) else f"intc {i}"]
        if c < 0.5:
            return [f"pushint {n}"]
        if c < 0.6 and n < 2**31:
            return [f"int 0x{n:x}"]
        return [f"int {n}"]

    # -- reads of governed fields
    def read_txn_field(self, field):
        """instructions pushing `field` of some group member; returns (lines, who) with who = 'self' | ('abs', i) | ('rel', k)"""
        c = self.r.random()
        if not self.cfg.gtxn or c < 0.6:
            return [f"txn {field}"], "self"
        if c < 0.75:
            i = self.r.choice([0, 1, 2, 3, 0, 1, 14, 15])
            return [f"gtxn {i} {field}"], ("abs", i)
        if c < 0.85:
            i = self.r.choice([0, 1, 2, 3, 15])
            return self.push_int(i) + [f"gtxns {field}"], ("abs", i)
        if c < 0.88:
            # index taken from ANOTHER member's GroupIndex field: not the own index (must not be read as Self / Relative)
            i = self.r.choice([0, 1])
            if self.chance(0.5):
                return [f"gtxn {i} GroupIndex", f"gtxns {field}"], ("abs", i)
            return [f"gtxn {i} GroupIndex"] + self.push_int(1) + ["+", f"gtxns {field}"], ("abs", i + 1)
        if c < 0.91:
            # index computed by an addition that does NOT involve the own GroupIndex (constant arithmetic, a scratch value):
            # an absolute member, never a relative one
            a, b = self.r.choice([0, 1]), self.r.choice([0, 1])
            if self.chance(0.5):
                return self.push_int(a) + self.push_int(b) + ["+", f"gtxns {field}"], ("abs", a + b)
            return self.push_int(a) + ["load 0", "+", f"gtxns {field}"], ("abs", a)
        k = self.r.choice([1, 2, -1, -2]) if self.chance(0.9) else 0
        if k >= 0:
            if self.chance(0.5):
                return ["txn GroupIndex"] + self.push_int(k) + ["+", f"gtxns {field}"], ("rel", k)
            return self.push_int(k) + ["txn GroupIndex", "+", f"gtxns {field}"], ("rel", k)
        return ["txn GroupIndex"] + self.push_int(-k) + ["-", f"gtxns {field}"], ("rel", k)

    def cmp(self, lhs, rhs, op, allow_swap=True, ordered=False):
        """lhs op rhs, possibly written with the operands swapped (mirrored operator)"""
        if allow_swap and self.chance(0.35):
            if op in ("==", "!="):
                return rhs + lhs + [op]
            if self.cfg.shapes:
                self.tags.add("constLeft")
                mirror = {"<": ">", "<=": ">=", ">": "<", ">=": "<="}[op]
                return rhs + lhs + [mirror]
        return lhs + rhs + [op]

    def direct_check(self):
        """a comparison of a governed field with a constant; returns lines leaving one value"""
        kind = self.r.choice(self.cfg.kinds)
        if kind == "size":
            n = self.r.choice([1, 2, 3, 4, 15, 16, 16, 17, 2, 3])
            op = self.r.choice(OPS)
            return self.cmp(["global GroupSize"], self.push_int(n), op)
        if kind == "index":
            n = self.r.choice([0, 1, 2, 3, 14, 15, 16])
            op = self.r.choice(OPS)
            return self.cmp(["txn GroupIndex"], self.push_int(n), op)
        if kind == "fee":
            n = self.r.choice([0, 1000, 2000, 10000, 271999, 272000, 272001, 1000000, 2**64 - 1])
            op = self.r.choice(OPS)
            rd, _ = self.read_txn_field("Fee")
            return self.cmp(rd, self.push_int(n), op)
        if kind == "type":
            t = self.r.randrange(1, 7)
            c = [f"int {TYPE_NAMES[t]}"] if self.chance(0.5) else self.push_int(t)
            rd, _ = self.read_txn_field("TypeEnum")
            return self.cmp(rd, c, self.r.choice(["==", "!="]))
        if kind == "oc":
            t = self.r.randrange(0, 6)
            c = [f"int {OC_NAMES[t]}"] if self.chance(0.5) else self.push_int(t)
            rd, _ = self.read_txn_field("OnCompletion")
            return self.cmp(rd, c, self.r.choice(["==", "!="]))
        if kind == "appid":
            rd, _ = self.read_txn_field("ApplicationID")
            c = self.r.random()
            if c < 0.3:
                return rd
            if c < 0.5:
                return rd + ["!"]
            return self.cmp(rd, self.push_int(self.r.choice([0, 0, 0, 7, 1234])), self.r.choice(["==", "!="]))
        # address
        f = self.r.choice(ADDR_FIELDS)
        rd, _ = self.read_txn_field(f)
        c = self.r.random()
        if c < 0.5:
            rhs = ["global ZeroAddress"]
        elif c < 0.85:
            rhs = [f"addr {self.r.choice(LITERALS)}"]
        elif c < 0.95:
            rhs = ["global CreatorAddress"]
        else:
            rhs = [f"addr {ZERO}"]
        return self.cmp(rd, rhs, self.r.choice(["==", "==", "!="]))

    def opaque(self):
        """a condition on something no analysis governs"""
        c = self.r.random()
        if c < 0.6:
            f = self.r.choice(OPAQUE_FIELDS)
            return [f"txn {f}"] + self.push_int(self.r.choice([0, 1, 5])) + [self.r.choice(OPS)]
        if c < 0.8:
            return [f"load {self.r.randrange(0, 3)}"]
        return [f"txn {self.r.choice(OPAQUE_FIELDS)}"]

    def cond(self, depth=0):
        c = self.r.random()
        if depth >= 2 or c < 0.45:
            return self.direct_check()
        if c < 0.55 and not self.cfg.direct_only:
            return self.opaque()
        if c < 0.55:
            return self.direct_check()
        if c < 0.75:
            return self.cond(depth + 1) + self.cond(depth + 1) + ["&&"]
        if c < 0.9:
            return self.cond(depth + 1) + self.cond(depth + 1) + ["||"]
        return self.cond(depth + 1) + ["!"]

    def branch_cond(self):
        """condition used for bz/bnz: often opaque (dispatch), sometimes a governed check"""
        if self.chance(0.5):
            return self.opaque()
        return self.cond()

    def noise(self):
        c = self.r.randrange(0, 9)
        k = self.r.randrange(0, 100)
        if c == 0: return [f"int {k}", "pop"]
        if c == 1: return [f"int {k}", f"int {k+1}", "swap", "pop", "pop"]
        if c == 2: return [f"int {k}", f"store {self.r.randrange(3, 6)}"]
        if c == 3: return [f"int {k}", "dup", "pop", "pop"]
        if c == 4: return [f"int {k}", f"int {k+2}", "dig 1", "pop", "pop", "pop"]
        if c == 5: return [f"int {k}", f"int {k+1}", f"int {k+2}", "cover 2", "uncover 1", "pop", "pop", "pop"]
        if c == 6: return [f"int {k}", f"int {k+1}", "int 1", "select", "pop"]
        if c == 7: return [f"int {k}", f"int {k+1}", "+", "pop"]
        return [f"byte 0x{k:02x}", "pop"]

    def consume(self, depth, in_sub, in_loop):
        """consume the condition on top of the stack: assert / negated assert / branch to an erring or approving arm"""
        c = self.r.random()
        if c < 0.4: return ["assert"]
        if c < 0.55: return ["!", "assert"]
        lab, end = self.label("arm"), self.label("join")
        br = self.r.choice(["bz", "bnz"])
        arm1 = self.r.choice([["err"], self.noise(), self.noise()])
        arm2 = self.r.choice([["err"], self.noise(), self.noise()])
        if arm1 == ["err"] and arm2 == ["err"]: arm2 = self.noise()
        if arm1 == ["err"]:
            return [f"{br} {lab}"] + arm1 + [f"{lab}:"] + arm2
        return [f"{br} {lab}"] + arm1 + [f"b {end}", f"{lab}:"] + arm2 + [f"{end}:"]

    def split_cond(self, depth, in_sub, in_loop):
        """a condition one operand of which is computed in an EARLIER block (unknown to the block-local stack model)"""
        first = self.opaque() if self.chance(0.6) else self.direct_check()
        lab = self.label("mid")
        boundary = [f"{lab}:"] if self.chance(0.6) else [f"b {lab}", f"{lab}:"]
        second = self.direct_check()
        conn = self.r.choice(["&&", "||"])
        out = first + boundary + second + [conn]
        if self.chance(0.3):
            out += self.direct_check() + [self.r.choice(["&&", "||"])]
        return out + self.consume(depth, in_sub, in_loop)

    def shuffled_check(self):
        """a governed comparison whose operands went through stack shuffling / multi-output opcodes"""
        kind = self.r.choice(["fee", "addr", "size"])
        if kind == "fee": a, b, op = ["txn Fee"], self.push_int(self.r.choice([1000, 272000, 272001])), self.r.choice(OPS)
        elif kind == "size": a, b, op = ["global GroupSize"], self.push_int(self.r.choice([1, 2, 16])), self.r.choice(OPS)
        else: a, b, op = [f"txn {self.r.choice(ADDR_FIELDS)}"], ["global ZeroAddress"], self.r.choice(["==", "!="])
        k = self.r.randrange(0, 100)
        c = self.r.randrange(0, 9)
        if c == 0: return a + b + ["swap", "swap", op]
        if c == 1: return b + a + ["swap", op]
        if c == 2: return a + ["dup", "pop"] + b + [op]
        if c == 3: return a + [f"int {k}"] + b + ["uncover 1", "pop", op]
        if c == 4: return [f"int {k}"] + a + b + [op, "swap", "pop"]
        if c == 5: return a + b + [f"int {k}", "cover 2", op, "swap", "pop"] if False else a + [f"int {k}", "pop"] + b + [op]
        if c == 6: return a + b + ["dig 1", "pop", op]
        if c == 7: return a + [f"int {k}", f"int {k}", "bury 1", "pop"] + b + [op]
        return a + b + [f"int {k}", f"int {k+1}", "popn 2", op]

    # -- statements (stack neutral)
    def stmt(self, depth, in_sub, in_loop=False):
        c = self.r.random()
        if c < 0.07:
            return self.split_cond(depth, in_sub, in_loop)
        if c < 0.12:
            return self.shuffled_check() + self.consume(depth, in_sub, in_loop)
        if c < 0.16 and depth < self.cfg.max_depth and not in_loop:
            return self.do_while(depth, in_sub)
        if c < 0.30:
            return self.cond() + ["assert"]
        if c < 0.42 and self.cfg.noise:
            return self.noise()
        if c < 0.62 and depth < self.cfg.max_depth:
            return self.if_else(depth, in_sub, in_loop)
        if c < 0.70 and depth < self.cfg.max_depth and not in_loop:
            return self.loop(depth, in_sub)
        if c < 0.82 and self.sub_names and self.depth_calls < 12:
            self.depth_calls += 1
            return [f"callsub {self.r.choice(self.sub_names)}"]
        if c < 0.86 and depth > 0:
            return self.terminal(in_sub)
        if c < 0.90 and self.cfg.gtxn:
            # an absolute-index read (consumed), makes group-size-check applicable
            i = self.r.randrange(0, 3)
            if in_loop:
                if not self.cfg.shapes:
                    return self.noise()
                self.tags.add("absInLoop")
            return [f"gtxn {i} {self.r.choice(OPAQUE_FIELDS)}", "pop"]
        if c < 0.94 and depth < self.cfg.max_depth:
            return self.switch(depth, in_sub, in_loop)
        return self.cond() + ["assert"]

    def terminal(self, in_sub):
        c = self.r.random()
        if in_sub and not self.cfg.shapes:
            # inside a subroutine a program-terminating block is a known-defect shape (§11 #5)
            return ["err"] if c < 0.5 else self.cond() + ["assert"]
        if in_sub:
            self.tags.add("innerApprove")
        if c < (0.4 if getattr(self, 'late_intc', False) else 0.05) and self.intcblock is not None and 1 in self.intcblock:
            return [f"intc {self.intcblock.index(1)}", "return"]
        if c < 0.35: return ["int 1", "return"]
        if c < 0.5: return ["int 0", "return"]
        if c < 0.75: return self.cond() + ["return"]
        return ["err"]

    def block(self, depth, in_sub, in_loop=False, n=None):
        n = n if n is not None else self.r.randrange(1, self.cfg.max_stmts)
        out = []
        for _ in range(n):
            out += self.stmt(depth, in_sub, in_loop)
        return out

    def if_else(self, depth, in_sub, in_loop):
        els, end = self.label("else"), self.label("end")
        br = self.r.choice(["bz", "bnz"])
        body1 = self.block(depth + 1, in_sub, in_loop, self.r.randrange(0, 3))
        body2 = self.block(depth + 1, in_sub, in_loop, self.r.randrange(0, 3))
        if not body1 and not self.cfg.shapes:
            body1 = self.noise()
        if not body1:
            self.tags.add("branchToNext")
        out = self.branch_cond() + [f"{br} {els}"] + body1
        if body2:
            out += [f"b {end}", f"{els}:"] + body2 + [f"{end}:"]
        else:
            out += [f"{els}:"]
        return out

    def loop(self, depth, in_sub):
        top, ex = self.label("top"), self.label("exit")
        body = self.block(depth + 1, in_sub, True, self.r.randrange(1, 3))
        return [f"{top}:"] + self.opaque() + [f"bz {ex}"] + body + [f"b {top}", f"{ex}:"]

    def do_while(self, depth, in_sub):
        top = self.label("dtop")
        body = self.block(depth + 1, in_sub, True, self.r.randrange(1, 3))
        return [f"{top}:"] + body + self.opaque() + [f"{self.r.choice(['bz', 'bnz'])} {top}"]

    def switch(self, depth, in_sub, in_loop):
        n = self.r.randrange(1, 4)
        labs = [self.label("case") for _ in range(n)]
        end = self.label("send")
        uniq = list(labs)
        if n > 1 and self.chance(0.3):
            labs = labs + [self.r.choice(labs)]          # the same label listed twice
            self.r.shuffle(labs)
        out = [f"txn {self.r.choice(OPAQUE_FIELDS)}"]
        if self.chance(0.5):
            out += [f"switch {' '.join(labs)}"]
        else:
            out = [f"int {i}" for i in range(len(labs))] + out + [f"match {' '.join(labs)}"]
        out += self.block(depth + 1, in_sub, in_loop, 1) + [f"b {end}"]
        for l in uniq:
            out += [f"{l}:"] + self.block(depth + 1, in_sub, in_loop, 1) + [f"b {end}"]
        out += [f"{end}:"]
        return out

    def program(self):
        r = self.r
        if r.random() < 0.5 and self.cfg.intc:
            self.intcblock = [0, 1]
            # the constant block outside the entry block (behind a jump): the AVM loads it all the same, tealer cannot
            # resolve `intc` then - every constant read through it is an unknown value, also the one an approving
            # `return` takes
            self.late_intc = r.random() < 0.2
        nsubs = r.randrange(0, self.cfg.max_subs + 1)
        names = [f"sub{i}" for i in range(nsubs)]
        # subroutine i may call subroutines with a larger index (no recursion) unless shapes allow recursion
        bodies = {}
        for i in reversed(range(nsubs)):
            self.sub_names = names[i + 1:]
            if self.cfg.shapes and r.random() < 0.1:
                self.sub_names = names[i:]  # direct recursion possible
                self.tags.add("recursion")
            self.depth_calls = 0
            body = self.block(1, True, False, r.randrange(1, 4))
            # optional early retsub
            if r.random() < 0.3:
                l = self.label("r")
                body = self.opaque() + [f"bz {l}", "retsub", f"{l}:"] + body
            bodies[names[i]] = body + ["retsub"]
        self.sub_names = names
        self.depth_calls = 0
        main = self.block(0, False, False, r.randrange(2, self.cfg.max_stmts + 2))
        endc = r.random()
        if endc < 0.6:
            main += ["int 1", "return"]
        elif endc < 0.8:
            main += self.cond() + ["return"]
        elif endc < 0.9:
            main += ["int 1"]          # falls off the end with one value
        else:
            main += self.cond()        # falls off the end with the condition
        lines = ["#pragma version 8"]
        if self.intcblock is not None:
            if getattr(self, 'late_intc', False):
                lines += ["b late_consts", "late_consts:"]
            lines += ["__INTCBLOCK__"]
        if nsubs and endc >= 0.8:
            # falling off the end is only possible when the main code is textually last
            lines += ["b main_code"]
            for n in names:
                lines += [f"{n}:"] + bodies[n]
            lines += ["main_code:"] + main
        else:
            lines += main
            for n in names:
                lines += [f"{n}:"] + bodies[n]
        if self.intcblock is not None:
            ib = "intcblock " + " ".join(str(x) for x in self.intcblock)
            lines = [ib if l == "__INTCBLOCK__" else l for l in lines]
        # shapes that arise from adjacency: a label right after a callsub (return point with other predecessors),
        # a callsub as the very last instruction, a branch to the next line
        out = []
        for k, l in enumerate(lines):
            out.append(l)
            nxt = lines[k + 1] if k + 1 < len(lines) else None
            if l.startswith("callsub ") and (nxt is None or nxt.endswith(":")):
                if self.cfg.shapes:
                    self.tags.add("callsubLast" if nxt is None else "retPointJoin")
                else:
                    out += ["int 7", "pop"]
            if l.split(" ")[0] in ("bz", "bnz") and nxt is not None and nxt == l.split(" ")[1] + ":":
                if self.cfg.shapes:
                    self.tags.add("branchToNext")
                else:
                    out += ["int 8", "pop"]
        return "\n".join(out) + "\n"


def fragment(seed, index, **cfgkw):
    """returns (source, tags)"""
    rng = random.Random(f"fragment/{seed}/{index}")
    g = Gen(rng, Cfg(**cfgkw))
    src = g.program()
    return src, sorted(g.tags)


# ---------------------------------------------------------------------------------------------
# systematic small programs around ONE direct check (exact verdicts, C03 / C06 / C09 exactness)

DIRECT_FIELDS = [("fee", "txn Fee"), ("size", "global GroupSize"), ("index", "txn GroupIndex"), ("gfee", "gtxn 0 Fee")]

def direct(seed, index):
    """program `index` of the systematic family: field x operator x operand order x constant x consumption form
    x (nothing | an operand of a surrounding && / || computed in an EARLIER block | absolute read through `int 0; gtxns`)"""
    r = random.Random(f"direct/{seed}/{index}")
    kind, read = DIRECT_FIELDS[index % len(DIRECT_FIELDS)]
    op = OPS[(index // 4) % 6]
    const_first = (index // 24) % 2 == 1
    form = (index // 48) % 6
    variant = (index // 288) % 4
    if kind in ("fee", "gfee"): c = r.choice([1, 1000, 271999, 272000, 272001, 500000])
    elif kind == "size": c = r.choice([1, 2, 3, 15, 16, 17])
    else: c = r.choice([0, 1, 2, 14, 15, 16])
    lit = r.choice([f"int {c}", f"pushint {c}"])
    cmp_ = ([lit, read] if const_first else [read, lit]) + [op]
    pre = ["#pragma version 8"]
    if variant == 3:
        pre += ["int 0", "gtxns Amount", "pop"]   # absolute index 0 taken from the stack
    elif kind != "fee" or r.random() < 0.5:
        pre += ["gtxn 0 Amount", "pop"]        # an absolute-index read (always in range), so that group-size-check applies
    if variant in (1, 2):
        # one operand of the connective is left on the stack by the previous block
        conn = "&&" if variant == 1 else "||"
        cmp_ = ["txn NumAppArgs", "mid:"] + cmp_ + [conn]
    if form == 0: body = cmp_ + ["assert", "int 1", "return"]
    elif form == 1: body = cmp_ + ["return"]
    elif form == 2: body = cmp_ + ["bz bad", "int 1", "return", "bad:", "err"]
    elif form == 3: body = cmp_ + ["bnz bad", "int 1", "return", "bad:", "err"]
    elif form == 4: body = cmp_ + ["!", "assert", "int 1", "return"]
    else: body = cmp_ + ["bnz good", "err", "good:", "int 1", "return"]
    tags = ["constLeft"] if const_first and op in ("<", "<=", ">", ">=") else []
    return "\n".join(pre + body) + "\n", tags

N_DIRECT = 4 * 6 * 2 * 6 * 4


# ---------------------------------------------------------------------------------------------
# adversarial layouts (C04 / C05 / C17): control skeletons with little data flow

def layout(seed, index):
    r = random.Random(f"layout/{seed}/{index}")
    n = r.randrange(3, 14)
    labels = [f"L{i}" for i in range(r.randrange(1, 6))]
    subs = [f"S{i}" for i in range(r.randrange(0, 4))]
    lines = ["#pragma version 8"] if r.random() < 0.9 else []
    placed = set()
    def filler():
        return r.choice(["int 1", "int 0", "pop", "int 2\npop", "txn Fee\npop", "load 0\npop"])
    body = []
    for _ in range(n):
        c = r.random()
        if c < 0.2 and len(placed) < len(labels) + len(subs):
            cand = [l for l in labels + subs if l not in placed]
            l = r.choice(cand); placed.add(l)
            body.append(f"{l}:")
            if r.random() < 0.15:
                cand = [l for l in labels + subs if l not in placed]
                if cand:
                    l = r.choice(cand); placed.add(l); body.append(f"{l}:")   # back-to-back labels
        elif c < 0.30: body.append(f"b {r.choice(labels)}")
        elif c < 0.42: body.append(f"int 1\n{r.choice(['bz', 'bnz'])} {r.choice(labels)}")
        elif c < 0.50 and subs: body.append(f"callsub {r.choice(subs)}")
        elif c < 0.56: body.append("retsub")
        elif c < 0.62: body.append("int 1\nreturn")
        elif c < 0.66: body.append("err")
        elif c < 0.70: body.append(f"int 0\nswitch {' '.join(r.choice(labels) for _ in range(r.randrange(1, 4)))}")
        elif c < 0.73: body.append(f"int 0\nint 1\nmatch {r.choice(labels)}")
        else: body.append(filler())
    for l in labels + subs:
        if l not in placed:
            body.append(f"{l}:")
            if r.random() < 0.7:
                body.append(r.choice(["int 1\nreturn", "retsub", "int 1", "err", filler()]))
    tail = r.random()
    if tail < 0.3: body.append("int 1\nreturn")
    elif tail < 0.4 and subs: body.append(f"callsub {r.choice(subs)}")
    elif tail < 0.5: body.append(f"int 1\nbnz {r.choice(labels)}")
    elif tail < 0.6: body.append(f"b {r.choice(labels)}")
    return "\n".join(lines + body) + "\n"


def dense(seed, index):
    """dense control flow: every block is labelled and ends in a random terminator over all labels (forward and backward),
    so that diamonds, side exits, shared merge blocks and re-entered blocks are frequent; one or two subroutines of the
    same kind follow the main code"""
    r = random.Random(f"dense/{seed}/{index}")
    def region(prefix, k, subs, closer):
        labs = [f"{prefix}{i}" for i in range(k)]
        out = []
        for i, l in enumerate(labs):
            out.append(f"{l}:")
            out.append(r.choice(["int 1", "txn Fee\npop", "load 0\npop", "int 2\npop"]))
            c = r.random()
            tgt = lambda: r.choice(labs)
            if c < 0.34: out.append(f"load {r.randrange(3)}\n{r.choice(['bz', 'bnz'])} {tgt()}")
            elif c < 0.44: out.append(f"b {tgt()}")
            elif c < 0.52: out.append(f"load 1\nswitch {' '.join(tgt() for _ in range(r.randrange(1, 4)))}")
            elif c < 0.56: out.append(f"load 1\nload 2\nmatch {tgt()}")
            elif c < 0.68 and subs: out.append(f"callsub {r.choice(subs)}")
            elif c < 0.78: out.append(closer)
            # else: fall through
        out.append(closer)
        return out
    nsub = r.randrange(0, 3)
    subs = [f"S{i}" for i in range(nsub)]
    body = region("M", r.randrange(3, 8), subs, "int 1\nreturn")
    for sname in subs:
        body.append(f"{sname}:")
        body += region(sname + "b", r.randrange(2, 6), subs if r.random() < 0.5 else [], "retsub")
    return "#pragma version 8\n" + "\n".join(body) + "\n"


ADDR_FIELDS = ["RekeyTo", "CloseRemainderTo", "AssetCloseTo", "Sender"]
ADDRFAM_LAYOUTS = ["diamond", "or-then-branch", "three-way", "diamond-in-sub", "loop-narrowing"]
N_ADDRFAM = len(ADDR_FIELDS) * len(ADDRFAM_LAYOUTS) * 2


def addrfam(seed, index):
    """systematic family: ONE address field compared with SEVERAL DIFFERENT literal addresses - on converging paths (each arm
    asserts another literal), as a list (`a || b`) that is then branched on, three-way, inside a subroutine called from two
    sites, and narrowed again inside a loop; the second half of the family reads the field through `gtxn 0`"""
    r = random.Random(f"addrfam/{seed}/{index}")
    field = ADDR_FIELDS[index % len(ADDR_FIELDS)]
    layout = ADDRFAM_LAYOUTS[(index // len(ADDR_FIELDS)) % len(ADDRFAM_LAYOUTS)]
    via_gtxn = (index // (len(ADDR_FIELDS) * len(ADDRFAM_LAYOUTS))) % 2 == 1
    read = f"gtxn 0 {field}" if via_gtxn else f"txn {field}"
    lits = LITERALS[:]; r.shuffle(lits)
    a, b, c = lits[0], lits[1], lits[2 % len(lits)]
    other = r.choice([f for f in ADDR_FIELDS if f != field])
    def eq(x, swap=False):
        return [f"addr {x}", read, "=="] if swap else [read, f"addr {x}", "=="]
    sw = r.random() < 0.5
    L = ["#pragma version 8"]
    if layout == "diamond":
        L += [f"txn {other}", f"addr {c}", "==", "bnz arm_a"] + eq(b, sw) + ["assert", "b merge", "arm_a:"] + eq(a) + ["assert", "b merge", "merge:",
              "txn Fee", "int 1000", "<=", "assert", "int 1", "return"]
    elif layout == "or-then-branch":
        L += eq(a) + eq(b, sw) + ["||", "assert"] + eq(a, sw) + ["bnz is_a", "int 1", "return", "is_a:", f"txn {other}", f"addr {c}", "==", "return"]
    elif layout == "three-way":
        L += ["load 0", "bz w1", "load 1", "bz w2"] + eq(a) + ["assert", "b done", "w1:"] + eq(b, sw) + ["assert", "b done", "w2:"] + eq(c) + \
             ["assert", "done:", "int 1", "return"]
    elif layout == "diamond-in-sub":
        L += ["load 0", "bz second", "callsub chk", "int 1", "return", "second:", "callsub chk", "txn Fee", "int 1000", "<=", "return",
              "chk:", "load 1", "bnz chk_a"] + eq(b, sw) + ["assert", "retsub", "chk_a:"] + eq(a) + ["assert", "retsub"]
    else:   # loop-narrowing
        L += eq(a) + eq(b, sw) + ["||", "assert", "int 0", "store 0", "again:", "load 0", "int 3", "<", "bz out"] + eq(a, sw) + \
             ["bz skip", "load 0", "int 1", "+", "store 0", "b again", "skip:", "int 1", "return", "out:", "int 1", "return"]
    return "\n".join(L) + "\n"


def deadcode(seed, index):
    """valid programs (subroutine bodies entered only through callsub) with UNREACHABLE code that branches, calls and falls
    through into live code: after a terminator (`b`, `return`, `err`, `retsub`) of the main code or of a subroutine come
    0-3 dead chunks - `b L`, `bz/bnz L`, `switch`, `callsub`, plain fall-through - whose targets are LIVE labels of the same
    routine; frequently several consecutive dead chunks target the same live label (adjacent dead predecessors)"""
    r = random.Random(f"deadcode/{seed}/{index}")
    nsub = r.randrange(1, 4)
    subs = [f"S{i}" for i in range(nsub)]
    uid = [0]
    def filler():
        return r.choice(["int 1\npop", "txn Fee\npop", "load 0\npop", "int 2\nstore 1"])
    def dead_chunks(live, closer):
        """dead code placed right after a terminator"""
        out = []
        k = r.choice([0, 1, 2, 2, 3])
        same = r.choice(live) if live and r.random() < 0.6 else None
        for _ in range(k):
            tgt = same or (r.choice(live) if live else None)
            c = r.random()
            uid[0] += 1
            if tgt and c < 0.35: out.append(f"b {tgt}")
            elif tgt and c < 0.65: out.append(f"{filler()}\nload 2\n{r.choice(['bz', 'bnz'])} {tgt}")
            elif tgt and c < 0.75: out.append(f"load 2\nswitch {tgt} {r.choice(live)}")
            elif c < 0.85: out.append(f"callsub {r.choice(subs)}\n{closer}")
            elif c < 0.93: out.append(f"dead{uid[0]}:\n{filler()}")       # dead label, falls through into what follows
            else: out.append(f"{filler()}\n{closer}")
        return out
    def routine(prefix, closer, callable_subs):
        nlab = r.randrange(2, 5)
        labs = [f"{prefix}L{i}" for i in range(nlab)]
        body = [filler()]
        # entry part: conditional jumps make every label live
        for l in labs:
            body.append(f"load {r.randrange(3)}\n{r.choice(['bz', 'bnz'])} {l}")
            if callable_subs and r.random() < 0.4: body.append(f"callsub {r.choice(callable_subs)}")
        body.append(closer)
        body += dead_chunks(labs, closer)
        order = labs[:]; r.shuffle(order)
        for l in order:
            body.append(f"{l}:")
            body.append(filler())
            c = r.random()
            if c < 0.25 and callable_subs: body.append(f"callsub {r.choice(callable_subs)}")
            if c < 0.45: term = closer
            elif c < 0.6: term = f"b {r.choice(labs)}"
            elif c < 0.7: term = "err"
            elif c < 0.8: term = closer
            else: term = None                                           # falls through into the next label (or the end)
            if term:
                body.append(term)
                body += dead_chunks(labs, closer)
        body.append(closer)
        return body
    lines = ["#pragma version 8"] + routine("M", "int 1\nreturn", subs)
    for i, sname in enumerate(subs):
        lines.append(f"{sname}:")
        lines += routine(sname, "retsub", subs[i + 1:] if r.random() < 0.7 else [])
    return "\n".join(lines) + "\n"


TWOFIELD_KINDS = [None, ("TypeEnum", "pay"), ("TypeEnum", "axfer"), ("TypeEnum", "appl"), ("TypeEnum", "keyreg"),
                  ("OnCompletion", "UpdateApplication"), ("OnCompletion", "DeleteApplication"), ("OnCompletion", "NoOp")]
TWOFIELD_ADDR = [None, ("CloseRemainderTo", "global ZeroAddress", "=="), ("AssetCloseTo", "global ZeroAddress", "=="),
                 ("RekeyTo", "global ZeroAddress", "=="), ("Sender", "global CreatorAddress", "=="),
                 ("CloseRemainderTo", "global ZeroAddress", "!="), ("Sender", "global CreatorAddress", "!="),
                 ("CloseRemainderTo", "addr 6ZHGHH5Z5CTPCF5WCESXMGRSVK7QJETR63M3NY5FJCUYDHO57VTCMJOBGY", "==")]
N_TWOFIELD = len(TWOFIELD_KINDS) * len(TWOFIELD_ADDR) * 2 * 3
KIND_NUMBERS = {"pay": 1, "keyreg": 2, "acfg": 3, "axfer": 4, "afrz": 5, "appl": 6,
                "NoOp": 0, "OptIn": 1, "CloseOut": 2, "ClearState": 3, "UpdateApplication": 4, "DeleteApplication": 5}

def twofield(seed, index):
    """systematic family for the detector predicates that combine a transaction-kind check with an address check
    (can-close-account / can-close-asset / unprotected-updatable / unprotected-deletable, and the single-field ones):
    kind check x address check x {asserted, negated and branched}"""
    kind = TWOFIELD_KINDS[index % len(TWOFIELD_KINDS)]
    addr = TWOFIELD_ADDR[(index // len(TWOFIELD_KINDS)) % len(TWOFIELD_ADDR)]
    negated = (index // (len(TWOFIELD_KINDS) * len(TWOFIELD_ADDR))) % 2 == 1
    spelling = (index // (len(TWOFIELD_KINDS) * len(TWOFIELD_ADDR) * 2)) % 3   # named field-first / numeric field-first / numeric constant-first
    out = ["#pragma version 8"]
    if kind is not None:
        f, c = kind
        if f == "OnCompletion" and ((index // len(TWOFIELD_KINDS)) % 2 == 1 or spelling == 1):
            # with / without the transaction-kind prelude (OnCompletion alone already excludes update / delete)
            out += ["txn TypeEnum", "int appl", "==", "assert"]
        lit = f"int {c}" if spelling == 0 else f"int {KIND_NUMBERS[c]}"
        pair = [lit, f"txn {f}"] if spelling == 2 else [f"txn {f}", lit]
        if negated: out += pair + ["!=", "bnz bad"]
        else: out += pair + ["==", "assert"]
    if addr is not None:
        f, v, op = addr
        out += [f"txn {f}", v, op, "assert"]
    out += ["int 1", "return"]
    if kind is not None and negated: out += ["bad:", "err"]
    return "\n".join(out) + "\n", []


if __name__ == "__main__":
    import sys
    s, t = fragment(int(sys.argv[1]) if len(sys.argv) > 1 else 0, int(sys.argv[2]) if len(sys.argv) > 2 else 0)
    print(s); print(t)


# ---------------------------------------------------------------------------------------------
# straight-line opcode sequences over the whole opcode table (C11): lines sampled from the repository's own
# parsing corpus (every supported opcode occurs there), plus immediates drawn from their ranges

_POOL = None
def opcode_pool():
    global _POOL
    if _POOL is None:
        import corpus, re
        seen, pool = set(), []
        for name, src in corpus.repo_sources():
            for l in src.splitlines():
                l = l.split('//')[0].strip()
                if not l or l.endswith(':') or l.startswith('#'): continue
                op = l.split()[0]
                if op in ('b', 'bz', 'bnz', 'callsub', 'retsub', 'err', 'return', 'switch', 'match', 'intcblock', 'bytecblock', 'proto'): continue
                key = l if op in ('txn', 'global', 'gtxn', 'gtxns') else op
                if (op, len(l.split())) in seen and key in seen: continue
                seen.add((op, len(l.split()))); seen.add(key)
                pool.append(l)
        _POOL = pool
    return _POOL

def straightline(seed, index):
    r = random.Random(f"straight/{seed}/{index}")
    pool = opcode_pool()
    n = r.randrange(4, 40)
    lines = ["#pragma version 8"]
    for _ in range(n):
        c = r.random()
        if c < 0.55:
            lines.append(r.choice(pool))
        elif c < 0.75:
            k = r.randrange(0, 6)
            lines.append(r.choice([f"dig {k}", f"cover {k}", f"uncover {k}", f"bury {k + 1}", f"popn {k}", f"dupn {k}", f"frame_dig {k - 3}",
                                   f"frame_bury {k - 3}", "dup2", "swap", "mulw", "addw", "divmodw", "expw", "select", "dup", "pop",
                                   "pushints " + " ".join(str(i) for i in range(k)), "pushbytess " + " ".join(f"0x0{i}" for i in range(k))]))
        elif c < 0.9:
            lines.append(r.choice(["txn RekeyTo", "txn Fee", "global ZeroAddress", "int 1000", "global GroupSize", "txn GroupIndex", "gtxn 1 Sender"]))
        else:
            lines.append(r.choice(["==", "!=", "<", "<=", "&&", "||", "!", "+", "-"]))
    lines += [r.choice(["assert", "return", "pop"])]
    return "\n".join(lines) + "\n"


# ---------------------------------------------------------------------------------------------
# small call / loop skeletons (C02, C05, C12): loops x calls inside loops x callee shapes x code after the loop

def callfam(seed, index):
    r = random.Random(f"callfam/{seed}/{index}")
    loop = index % 3              # 0 none, 1 while, 2 do-while
    callee = (index // 3) % 4     # 0 plain retsub, 1 early return + retsub (approves itself), 2 nested call, 3 called twice
    after = (index // 12) % 2     # code after the loop calls again
    check = (index // 24) % 3     # where a governed check sits: 0 main, 1 callee, 2 after the call
    chk = r.choice([["txn RekeyTo", "global ZeroAddress", "==", "assert"], ["txn Fee", "int 1000", "<=", "assert"],
                    ["txn OnCompletion", "int UpdateApplication", "!=", "assert"], ["global GroupSize", "int 2", "==", "assert"]])
    call = ["callsub f"] + (chk if check == 2 else [])
    body = call + (["callsub f"] if callee == 3 else [])
    main = ["#pragma version 8", "gtxn 1 Amount", "pop"] + (chk if check == 0 else [])
    if loop == 1:
        main += ["int 0", "store 0", "top:", "load 0", "int 2", "<", "bz done"] + body + ["load 0", "int 1", "+", "store 0", "b top", "done:"]
    elif loop == 2:
        main += ["int 0", "store 0", "top:"] + body + ["load 0", "int 1", "+", "dup", "store 0", "int 2", "<", "bnz top"]
    else:
        main += body
    if after:
        main += ["callsub f", "int 9", "pop"]
    main += ["int 1", "return"]
    f = ["f:"] + (chk if check == 1 else [])
    if callee == 1:
        f += ["txn NumAppArgs", "int 7", "==", "bz fcont", "int 1", "return", "fcont:"]
    if callee == 2:
        f += ["callsub g", "int 3", "pop"]
    f += ["retsub"]
    g = ["g:", "int 4", "pop", "retsub"] if callee == 2 else []
    tags = ["innerApprove"] if callee == 1 else []
    return "\n".join(main + f + g) + "\n", tags

N_CALLFAM = 3 * 4 * 2 * 3


BRANCHCALL_CONDS = [
    (["txn Fee", "global MinTxnFee", "=="], "feeUnknownOperand"), (["global MinTxnFee", "txn Fee", "<"], "feeUnknownOperand"),
    (["txn Fee", "int 1000", "<="], None), (["int 2000", "txn Fee", ">="], None),
    (["txn RekeyTo", "global ZeroAddress", "=="], None), (["txn CloseRemainderTo", "global ZeroAddress", "!="], None),
    (["global GroupSize", "int 2", "=="], None), (["txn OnCompletion", "int UpdateApplication", "=="], None),
    (["txn GroupIndex", "int 1", "!="], None),
]
BRANCHCALL_CALLEES = 4      # plain, nested, with an opaque early exit, with its own (different) check


def branchcall(seed, index):
    """systematic family: a `bz` / `bnz` on a governed comparison (known constant, or an operand the tool cannot evaluate) one or both
    sides of which reach their approving `return` ONLY THROUGH A CALLSUB - the values of the branching block then depend on the
    order in which the backward worklist visits the call site, the callee and the return point"""
    r = random.Random(f"branchcall/{seed}/{index}")
    cond, tag = BRANCHCALL_CONDS[index % len(BRANCHCALL_CONDS)]
    k = index // len(BRANCHCALL_CONDS)
    br = ("bz", "bnz")[k % 2]; k //= 2
    side = k % 3; k //= 3                 # which side goes through the call: 0 fall-through, 1 jump target, 2 both
    callee = k % BRANCHCALL_CALLEES; k //= BRANCHCALL_CALLEES
    pre = k % 2                           # a call before the branch as well
    call = ["callsub work"] + r.choice([[], ["int 7", "pop"]])
    plain = r.choice([[], ["int 5", "pop"]])
    L = ["#pragma version 8"] + (["callsub work"] if pre else []) + cond + [f"{br} other"]
    L += (call if side in (0, 2) else plain) + ["int 1", "return", "other:"] + (call if side in (1, 2) else plain) + ["int 1", "return"]
    w = ["work:"]
    if callee == 1: w += ["callsub deeper", "int 3", "pop"]
    if callee == 2: w += ["load 0", "bz wcont", "retsub", "wcont:", "int 6", "pop"]
    if callee == 3: w += r.choice([["txn Sender", "global CreatorAddress", "==", "assert"], ["txn Fee", "int 5000", "<", "assert"],
                                   ["global GroupSize", "int 3", "<=", "assert"]])
    w += ["retsub"]
    if callee == 1: w += ["deeper:", "int 4", "pop", "retsub"]
    return "\n".join(L + w) + "\n", ([tag] if tag else [])

N_BRANCHCALL = len(BRANCHCALL_CONDS) * 2 * 3 * BRANCHCALL_CALLEES * 2


LOOKALIKE_READS = ["itxn {f}", "gitxn 0 {f}"]
LOOKALIKE_FIELDS = [("RekeyTo", "addr"), ("CloseRemainderTo", "addr"), ("AssetCloseTo", "addr"), ("Sender", "addr"), ("Fee", "fee"),
                    ("TypeEnum", "type"), ("OnCompletion", "oc"), ("ApplicationID", "appid")]


def lookalike(seed, index):
    """systematic family: a governed FIELD NAME read from something that is NOT a transaction of the group - the last inner
    transaction the program submitted (`itxn F`, `gitxn 0 F`) - and compared with a constant exactly like a governed check.
    Nothing follows for the group's transactions: every value of the outer field stays approvable."""
    r = random.Random(f"lookalike/{seed}/{index}")
    f, kind = LOOKALIKE_FIELDS[index % len(LOOKALIKE_FIELDS)]
    k = index // len(LOOKALIKE_FIELDS)
    read = LOOKALIKE_READS[k % len(LOOKALIKE_READS)].format(f=f); k //= len(LOOKALIKE_READS)
    form = k % 3; k //= 3                 # 0 assert, 1 bz to err, 2 bnz to accept
    swap = k % 2
    const, op = {"addr": (r.choice(["global ZeroAddress", f"addr {LITERALS[0]}"]), "=="), "fee": ("int 1000", r.choice(["<=", "<", "=="])),
                 "type": ("int pay", "=="), "oc": (r.choice(["int NoOp", "int 0"]), "=="), "appid": ("int 0", r.choice(["!=", "=="]))}[kind]
    mirror = {"<=": ">=", "<": ">", "==": "==", "!=": "!="}
    cmpx = [const, read, mirror[op]] if swap else [read, const, op]
    L = ["#pragma version 6", "itxn_begin", "int pay", "itxn_field TypeEnum", "itxn_submit"] + cmpx
    if form == 0: L += ["assert", "int 1", "return"]
    elif form == 1: L += ["bz bad", "int 1", "return", "bad:", "err"]
    else: L += ["bnz good", "err", "good:", "int 1", "return"]
    return "\n".join(L) + "\n"

N_LOOKALIKE = len(LOOKALIKE_FIELDS) * len(LOOKALIKE_READS) * 3 * 2


REP_ALPHABET = ["dup", "pop", "int 1", "load 0", "load 1"]


def repetitive(seed, index):
    """programs over a FIVE-instruction alphabet with long runs (`dup dup dup`, `load 0 load 1 load 0 load 1 load 0`), cut by labels,
    branches and a subroutine: patterns over the same alphabet occur many times, OVERLAPPING each other, across and inside blocks"""
    r = random.Random(f"repetitive/{seed}/{index}")
    def run():
        k = r.randrange(3)
        if k == 0: return [r.choice(REP_ALPHABET)] * r.randrange(2, 6)
        if k == 1:
            a, b = r.sample(REP_ALPHABET, 2); return ([a, b] * r.randrange(2, 4)) + ([a] if r.random() < 0.6 else [])
        return [r.choice(REP_ALPHABET) for _ in range(r.randrange(2, 7))]
    L = ["#pragma version 8"]
    labels = [f"l{j}" for j in range(r.randrange(1, 4))]
    for lab in labels:
        L += run()
        if r.random() < 0.6: L += ["load 2", f"{r.choice(['bz', 'bnz'])} {r.choice(labels)}"]
        if r.random() < 0.3: L += ["callsub sub"]
        L += run() + [f"{lab}:"]
    L += run() + ["int 1", "return", "sub:"] + run() + ["retsub"]
    return "\n".join(L) + "\n"


EDGEROLE_SHAPES = ["back-branch", "back-branch-call", "branch-last", "branch-last-in-sub", "dispatch-then-branch"]


def edgeroles(seed, index):
    """systematic family of layouts in which WHICH successor of a `bz` / `bnz` is the fall-through and which the jump matters and is
    unusual: the branch on a governed comparison jumps BACKWARDS (so the jump target has the smaller block id), or is the LAST
    instruction of the program / of a subroutine (a single successor: the jump edge), the approving `return` sitting before it;
    or sits behind a dispatcher (so that a function cut out along the dispatch path replaces one of its successors)"""
    r = random.Random(f"edgeroles/{seed}/{index}")
    cond, tag = BRANCHCALL_CONDS[index % len(BRANCHCALL_CONDS)]
    k = index // len(BRANCHCALL_CONDS)
    br = ("bz", "bnz")[k % 2]; k //= 2
    shape = EDGEROLE_SHAPES[k % len(EDGEROLE_SHAPES)]
    noise = r.choice([[], ["int 5", "pop"], ["load 1", "pop"]])
    L = ["#pragma version 8"]
    if shape == "back-branch":
        L += noise + ["again:"] + r.choice([[], ["int 3", "pop"]]) + cond + [f"{br} again"] + r.choice([[], ["txn Fee", "int 3000", "<", "assert"]]) + ["int 1", "return"]
    elif shape == "back-branch-call":
        L += ["again:", "callsub work"] + cond + [f"{br} again", "int 1", "return", "work:", "int 7", "pop", "retsub"]
    elif shape == "branch-last":
        L += ["b main", "accept:"] + noise + ["int 1", "return", "main:"] + cond + [f"{br} accept"]
    elif shape == "branch-last-in-sub":
        L += ["callsub chk", "int 1", "return", "fine:", "retsub", "chk:"] + cond + [f"{br} fine"]
    else:
        L += ["txn NumAppArgs", "int 1", "==", "bnz handler", "int 1", "return", "handler:"] + cond + [f"{br} other", "int 1", "return", "other:"] + noise + ["int 1", "return"]
    return "\n".join(L) + "\n", ([tag] if tag else [])

N_EDGEROLES = len(BRANCHCALL_CONDS) * 2 * len(EDGEROLE_SHAPES)


# per program ONE governed field (the exact oracle reads constants literally: a GroupIndex check next to a GroupSize check would
# couple the two concretely - index < size - beyond the literal reading the property speaks of)
TWOSITE_CHECKS = [["global GroupSize", "int 2", "=="], ["global GroupSize", "int 3", "<="], ["int 4", "global GroupSize", "!="],
                  ["txn Fee", "int 1000", "<="], ["int 5000", "txn Fee", ">"], ["txn Fee", "int 700", "=="]]


def twosite(seed, index):
    """systematic family for the precision of the backward pass at call sites: ONE subroutine called from TWO sites, a direct check
    (size / index / fee) right after the return of the first call only (or different checks after the two returns): the callsub block
    of each site must carry what ITS OWN return point establishes, not the union over the callee's return points"""
    r = random.Random(f"twosite/{seed}/{index}")
    c1 = TWOSITE_CHECKS[index % len(TWOSITE_CHECKS)]
    k = index // len(TWOSITE_CHECKS)
    second = k % 3; k //= 3          # 0: no check after the second call, 1: a different check, 2: the same check
    callee = k % 2
    fam = [c for c in TWOSITE_CHECKS if ("Fee" in " ".join(c)) == ("Fee" in " ".join(c1)) and c != c1]
    c2 = [] if second == 0 else ((r.choice(fam) if second == 1 else c1) + ["assert"])
    L = ["#pragma version 8", "txn NumAppArgs", "bnz second", "callsub f"] + c1 + ["assert", "int 1", "return", "second:", "callsub f"] + c2 + ["int 1", "return", "f:"]
    L += (["int 3", "pop"] if callee else []) + ["retsub"]
    return "\n".join(L) + "\n"

N_TWOSITE = len(TWOSITE_CHECKS) * 3 * 2
