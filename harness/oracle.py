"""Semantic oracle: concrete executions of the Lean AVM semantics (spec side, run through the model driver)
compared with what the real tealer computed.

Environments are enumerated by regions: for every numeric field the program reads, one representative on each
side of every constant of the program; for address fields zero / each literal of the program / creator / a fresh
address; all (TypeEnum, OnCompletion, ApplicationID) kinds; group sizes and own indices around the program's
constants and the group members it reads.
"""
import itertools, os, random, subprocess, sys
sys.path.insert(0, os.path.dirname(__file__))
import impl
from tealer.teal.instructions import instructions as I

DRV = os.path.join(os.path.dirname(__file__), '..', 'lean', '.lake', 'build', 'bin', 'tmdrv')
FRESH = "FRESHATTACKERADDRESS"
MAXU64 = 2**64 - 1
MAXCOST = 272000
ADDR_FIELDS = ["RekeyTo", "CloseRemainderTo", "AssetCloseTo", "Sender"]
KIND_FIELDS = ["TypeEnum", "OnCompletion", "ApplicationID"]


class ProgInfo:
    """what the program reads and which constants it mentions (from tealer's own parse)"""
    def __init__(self, instructions, int_constants):
        self.consts = set()
        self.addr_lits = set()
        self.reads = {}            # who -> set(fields), who = 'self' | ('abs', i) | ('rel', k)
        self.abs_idx = set()
        self.rel_off = set()
        self.uses_abs_read = False
        self.other_globals = set()
        self.inner_fields = set()  # fields read from the last inner transaction (`itxn f`, `gitxn t f`): not a group member
        ins = list(instructions)
        for k, i in enumerate(ins):
            ok, v = (False, None)
            # by EXACT class, like the protocol encoder (impl.enc_ins): what a class inherits from is tealer's business
            if type(i) in (I.Int, I.PushInt):
                if isinstance(i.value, int): self.consts.add(i.value)
            elif type(i) is I.Intcblock:
                self.consts.update(i.constants)
            elif type(i) is I.Addr:
                self.addr_lits.add(i.addr)
            elif type(i) is I.Txn:
                self.reads.setdefault('self', set()).add(impl.field_name(i.field))
            elif type(i) is I.Gtxn:
                self.reads.setdefault(('abs', i.idx), set()).add(impl.field_name(i.field)); self.abs_idx.add(i.idx)
            elif type(i) is I.Gtxns:
                self.reads.setdefault('stack', set()).add(impl.field_name(i.field))
            elif type(i) in (I.Itxn, I.Gitxn):
                self.inner_fields.add(impl.field_name(i.field))
        self.stack_fields = self.reads.pop('stack', set())

    def num_values(self, lo, hi, extra=()):
        vals = set(extra)
        for c in self.consts:
            for d in (-1, 0, 1):
                vals.add(c + d)
        return sorted(v for v in vals if lo <= v <= hi)


INNER = 16


def enc_val(v):
    return ('i%d' % v) if isinstance(v, int) else ('b' + impl.penc(v))


def env_line(rid, fuel, size, self_idx, txns):
    """txns: dict index -> dict field -> value"""
    specs = []
    for i in range(17 if INNER in txns else size):       # position 16 (beyond every group size): the last inner transaction
        f = txns.get(i, {})
        specs.append(';'.join(f"{impl.penc(k)}={enc_val(v)}" for k, v in sorted(f.items())))
    return f"run {rid} {fuel} {size} {self_idx} CREATOR " + '|'.join(specs)


class Driver:  # noqa
    """a persistent model driver process"""
    def __init__(self):
        self.p = subprocess.Popen([DRV], stdin=subprocess.PIPE, stdout=subprocess.PIPE, text=True, bufsize=1 << 20)

    def load(self, toks):
        self.p.stdin.write("semprog " + ' '.join(toks) + "\n"); self.p.stdin.flush()
        return self.p.stdout.readline().strip()

    def run_many(self, lines):
        # chunked, so that neither pipe fills up while the other side is blocked
        out = []
        for k in range(0, len(lines), 8):
            chunk = lines[k:k + 8]
            self.p.stdin.write(''.join(l + '\n' for l in chunk)); self.p.stdin.flush()
            out += [self.p.stdout.readline().strip() for _ in chunk]
        return out

    def close(self):
        try:
            self.p.stdin.close(); self.p.wait(timeout=5)
        except Exception:
            self.p.kill()


def parse_res(line):
    w = line.split(' ')
    # res id tag why blocks=.. wf=.. steps=..
    d = {'tag': w[2], 'why': w[3] if len(w) > 3 else ''}
    for f in w[4:]:
        k, _, v = f.partition('=')
        d[k] = v
    d['blocks'] = [int(x) for x in d.get('blocks', '').split(',') if x]
    return d



def parse_ctx_lines(lines):
    """ctx lines -> {(key, kind, k): {field: value}}"""
    out = {}
    for l in lines:
        if not l.startswith('ctx '): continue
        w = l.split(' ')
        key, kind, k = int(w[1]), w[2], int(w[3])
        d = {}
        for f in w[4:]:
            a, _, b = f.partition('=')
            d[a] = b
        c = {'sizes': [int(x) for x in d['sizes'].split(',') if x], 'indices': [int(x) for x in d['indices'].split(',') if x],
             'types': [int(x) for x in d['types'].split(',') if x], 'fee': None if d['fee'] == 'unknown' else int(d['fee'])}
        for nm, fld in (('rekey', 'RekeyTo'), ('close', 'CloseRemainderTo'), ('aclose', 'AssetCloseTo'), ('sender', 'Sender')):
            v = d[nm]
            flags, _, rest = v.partition('[')
            c[fld] = {'any': 'A' in flags, 'no': 'N' in flags, 'addrs': [x for x in rest.rstrip(']').split(';') if x]}
        out[(key, kind, k)] = c
    return out

DEFAULT_TAIL = {'sizes': [], 'indices': [], 'types': [16, 32, 48, 64, 96, 97, 98, 99, 100, 101, 102, 103], 'fee': MAXU64,
                'RekeyTo': {'any': True, 'no': False, 'addrs': []}, 'CloseRemainderTo': {'any': True, 'no': False, 'addrs': []},
                'AssetCloseTo': {'any': True, 'no': False, 'addrs': []}, 'Sender': {'any': True, 'no': False, 'addrs': []}}

KIND_LABEL = {1: 16, 4: 64}

def relevant_kinds(m):
    t = m.get('TypeEnum', 0)
    if t == 1: return [16]
    if t == 4: return [64]
    if t == 6:
        oc = m.get('OnCompletion', 0)
        if oc == 4: return [100]
        if oc == 5: return [101]
    return []

# set per program by the engine: the program compares Fee with something that is not a directly pushed constant
UNKNOWN_FEE_OPERAND = False

def admits(ctx, m, what):
    """does context `ctx` admit the values of member `m`? returns list of (property, field, detail) failures"""
    bad = []
    fee = m.get('Fee', 0)
    if ctx['fee'] is not None and fee > ctx['fee']:
        bad.append(('C09', 'Fee', f"fee {fee} > bound {ctx['fee']}"))
    if ctx['fee'] is None and fee > MAXCOST and not UNKNOWN_FEE_OPERAND:
        # "bounded by a value the tool cannot evaluate" claims no known bound (C09, first sentence); it is questioned only
        # on programs in which every Fee comparison has a directly pushed constant as its other operand
        bad.append(('C09', 'Fee', f"fee {fee} > unknown-bounded (272000)"))
    for k in relevant_kinds(m):
        if k not in ctx['types']:
            bad.append(('C07', 'TransactionType', f"kind {k} not in {ctx['types']}"))
    for f in ADDR_FIELDS:
        a = m.get(f, 'ZERO')
        if a == 'ZERO': continue
        name = 'CREATOR_ADDRESS' if a == 'CREATOR' else a
        c = ctx[f]
        if not c['any'] and name not in c['addrs']:
            bad.append(('C08', f, f"address {a} not admitted by {c}"))
    return [(p, f, what + ': ' + d) for p, f, d in bad]


DET_FORCE = {
    'rekey-to': lambda r: {'RekeyTo': FRESH},
    'can-close-account': lambda r: {'TypeEnum': 1, 'OnCompletion': 0, 'ApplicationID': 0, 'CloseRemainderTo': FRESH},
    'can-close-asset': lambda r: {'TypeEnum': 4, 'OnCompletion': 0, 'ApplicationID': 0, 'AssetCloseTo': FRESH},
    'missing-fee-check': lambda r: {'Fee': r.choice([MAXCOST + 1, MAXU64, 10**6])},
    'is-updatable': lambda r: {'TypeEnum': 6, 'OnCompletion': 4},
    'is-deletable': lambda r: {'TypeEnum': 6, 'OnCompletion': 5},
    'unprotected-updatable': lambda r: {'TypeEnum': 6, 'OnCompletion': 4, 'Sender': FRESH},
    'unprotected-deletable': lambda r: {'TypeEnum': 6, 'OnCompletion': 5, 'Sender': FRESH},
    'group-size-check': lambda r: {},
}

def is_dangerous(det, size, m, trace_blocks, abs_blocks):
    g = lambda f, d=None: m.get(f, d)
    if det == 'rekey-to': return g('RekeyTo') == FRESH
    if det == 'can-close-account': return g('TypeEnum') == 1 and g('CloseRemainderTo') == FRESH
    if det == 'can-close-asset': return g('TypeEnum') == 4 and g('AssetCloseTo') == FRESH
    if det == 'missing-fee-check': return g('Fee', 0) > MAXCOST
    if det == 'is-updatable': return g('TypeEnum') == 6 and g('OnCompletion') == 4
    if det == 'is-deletable': return g('TypeEnum') == 6 and g('OnCompletion') == 5
    if det == 'unprotected-updatable': return g('TypeEnum') == 6 and g('OnCompletion') == 4 and g('Sender') == FRESH
    if det == 'unprotected-deletable': return g('TypeEnum') == 6 and g('OnCompletion') == 5 and g('Sender') == FRESH
    if det == 'group-size-check': return size == 16 and any(b in abs_blocks for b in trace_blocks)
    return False


class Analysed:
    """the real tool's results on one program, in structured form"""
    def __init__(self, src, limit=30):
        self.src = src
        self.ok = False
        self.err = None
        self.toks = None
        try:
            with impl.time_limit(limit):
                teal, cap = impl.parse(src)
                self.teal = teal
                self.toks = [impl.enc_ins(i) for i in cap.instructions]
                self.instructions = cap.instructions
                self.info = ProgInfo(cap.instructions, teal._int_constants)
                try:
                    fn = impl.construct_function_traced(teal, ["B0"])
                except impl.AnalysisFailed as af:
                    self.err = 'analyse ' + impl.exc_name(af.exc); return
                self.fn = fn
                self.keys = impl.block_keys(fn)
                self.ctx = parse_ctx_lines(impl.render_contexts(fn, self.keys))
                self.idx_key = {b.idx: k for b, k in self.keys.items()}
                self.leaf_keys = set(k for b, k in self.keys.items() if impl.leaf_block_global(b))
                self.paths = {}
                for l in impl.run_detectors(teal, fn):
                    w = l.split(' ')
                    if w[0] == 'paths':
                        self.paths[w[1]] = [p for p in (w[2] if len(w) > 2 else '').split('|') if p]
                    else:
                        self.paths[w[2]] = None     # detector raised
                from tealer.detectors.groupsize import MissingGroupSize
                self.abs_blocks = set(b.idx for b in fn.blocks if MissingGroupSize._accessed_using_absolute_index(b))
                impl.construct_stack_ast.cache_clear()
                self.ok = True
        except impl.Timeout:
            self.err = 'timeout'
        except BaseException as e:  # parse errors etc.
            self.err = 'parse ' + impl.exc_name(e)

    def context(self, key, kind='self', k=0):
        return self.ctx.get((key, kind, k), DEFAULT_TAIL)


def draw_envs(info, rng, n):
    sizes = sorted(set(info.num_values(1, 16, (1, 2, 16))))
    addr_pool = ["ZERO", "CREATOR", FRESH] + sorted(info.addr_lits)
    fee_vals = info.num_values(0, MAXU64, (0, 1000, MAXCOST, MAXCOST + 1, MAXU64))
    opaque_vals = info.num_values(0, 2**32, (0, 1))
    kinds = [(t, oc, a) for t in range(1, 7) for oc in (range(0, 6) if t == 6 else (0,)) for a in ((0, 7, 1234) if t == 6 else (0,))]
    allf = set(info.stack_fields)
    for fs in info.reads.values():
        allf |= fs
    allf |= {'Fee'} | set(ADDR_FIELDS)
    dets = list(DET_FORCE)
    for j in range(n):
        size = rng.choice(sizes) if rng.random() < 0.8 else rng.randrange(1, 17)
        idx_c = sorted(set(v for v in info.num_values(0, 15, (0, size - 1)) if v < size) | set(i for i in info.abs_idx if i < size))
        self_idx = rng.choice(idx_c) if rng.random() < 0.8 else rng.randrange(0, size)
        txns = {}
        for i in range(size):
            if i == self_idx or i in info.abs_idx or abs(i - self_idx) <= 2:
                m = {}
                for f in allf:
                    if f in ('GroupIndex',) or f in KIND_FIELDS: continue
                    if f == 'Fee': m[f] = rng.choice(fee_vals)
                    elif f in ADDR_FIELDS or f in ('Receiver', 'AssetReceiver', 'AssetSender'): m[f] = rng.choice(addr_pool)
                    else: m[f] = rng.choice(opaque_vals)
                t, oc, a = rng.choice(kinds)
                m['TypeEnum'], m['OnCompletion'], m['ApplicationID'] = t, oc, a
                txns[i] = m
        if info.inner_fields:
            m = {}
            for f in info.inner_fields:
                if f == 'Fee': m[f] = rng.choice(fee_vals)
                elif f in ADDR_FIELDS: m[f] = rng.choice(addr_pool)
                elif f == 'TypeEnum': m[f] = rng.choice((1, 1, 4, 6))
                elif f in ('OnCompletion', 'ApplicationID'): m[f] = rng.choice((0, 0, 1, 5))
                else: m[f] = rng.choice(opaque_vals)
            txns[INNER] = m
        forced = None
        if rng.random() < 0.6:
            forced = rng.choice(dets)
            txns[self_idx].update(DET_FORCE[forced](rng))
            if forced == 'group-size-check':
                size_old = size
                size = 16
                # keep members consistent with the larger group
        yield size, self_idx, txns


def oracle_check(an, drv, rng, nenv, fuel=4000):
    """run `nenv` environments; returns (stats, violations)"""
    stats = {'envs': 0, 'accept': 0, 'reject': 0, 'fuel': 0, 'unsupported': 0, 'dangerous_accepts': 0, 'checked_blocks': 0, 'wf_bad': 0}
    viol = []
    if drv.load(an.toks) != 'semprog ok':
        return stats, [('model', 'semprog', 'model could not build the program', None)]
    envs = list(draw_envs(an.info, rng, nenv))
    res = drv.run_many([env_line(j, fuel, s, i, t) for j, (s, i, t) in enumerate(envs)])
    seen = set()
    for (size, self_idx, txns), line in zip(envs, res):
        stats['envs'] += 1
        r = parse_res(line)
        stats[r['tag']] = stats.get(r['tag'], 0) + 1
        if r.get('wf') == '0' and r['tag'] in ('accept', 'reject'):
            stats['wf_bad'] += 1
            viol.append(('C04', 'single-entry', f"execution entered a block in the middle or left it early: {line}", (size, self_idx, txns)))
        if r['tag'] != 'accept':
            continue
        m = txns[self_idx]
        blocks = r['blocks']
        # C04: the block trace is a walk of the global graph -- checked separately (walk_check)
        for b in dict.fromkeys(blocks):
            key = an.idx_key.get(b)
            if key is None:
                viol.append(('C04', 'trace', f"executed block {b} is not in the function", (size, self_idx, txns)))
                continue
            stats['checked_blocks'] += 1
            c = an.context(key)
            if size not in c['sizes']:
                viol.append(('C06', 'GroupSize', f"block {b}: size {size} not in {c['sizes']}", (size, self_idx, txns)))
            if self_idx not in c['indices']:
                viol.append(('C06', 'GroupIndex', f"block {b}: index {self_idx} not in {c['indices']}", (size, self_idx, txns)))
            for p, f, d in admits(c, m, f"block {b} self"):
                viol.append((p, f, d, (size, self_idx, txns)))
            # C10: derived contexts
            for p, f, d in admits(an.context(key, 'at', self_idx), m, f"block {b} at-index {self_idx}"):
                viol.append(('C10', f, p + ' ' + d, (size, self_idx, txns)))
            for i, mi in txns.items():
                if i >= size: continue
                for p, f, d in admits(an.context(key, 'abs', i), mi, f"block {b} abs {i}"):
                    viol.append(('C10', f, p + ' ' + d, (size, self_idx, txns)))
                k = i - self_idx
                if k != 0:
                    for p, f, d in admits(an.context(key, 'rel', k), mi, f"block {b} rel {k}"):
                        viol.append(('C10', f, p + ' ' + d, (size, self_idx, txns)))
        for det in DET_FORCE:
            if is_dangerous(det, size, m, blocks, an.abs_blocks):
                stats['dangerous_accepts'] += 1
                ps = an.paths.get(det)
                if ps is not None and len(ps) == 0:
                    viol.append(('C01', det, f"accepting dangerous execution (blocks {blocks}) but no path reported", (size, self_idx, txns)))
    return stats, viol


LIT_ADDR = '6ZHGHH5Z5CTPCF5WCESXMGRSVK7QJETR63M3NY5FJCUYDHO57VTCMJOBGY'

def twofield_envs(toks_text):
    """exhaustive regions for the kind-check x address-check family: every TypeEnum, every OnCompletion, and for the address
    fields the values the program can tell apart (zero, creator, the literal it names, a fresh one)"""
    out = []
    addr_vals = ['ZERO', 'CREATOR', LIT_ADDR, FRESH]
    fields = [f for f in ('RekeyTo', 'CloseRemainderTo', 'AssetCloseTo', 'Sender') if (',' + f) in toks_text]
    for te in range(1, 7):
        for oc in range(0, 6):
            for av in addr_vals:
                for other in ('ZERO', FRESH):
                    m = {'Fee': 1000, 'NumAppArgs': 0, 'Amount': 5, 'TypeEnum': te, 'OnCompletion': oc, 'ApplicationID': 7}
                    for f in ('RekeyTo', 'CloseRemainderTo', 'AssetCloseTo', 'Sender'):
                        m[f] = av if f in fields else other
                    out.append((1, 0, {0: m}))
    return out


def exact_envs(info, toks_text):
    """exhaustive region enumeration for the direct-check family: every (size, index) the program can tell apart, every fee
    representative, both values of the free operand"""
    reads_size = 'GroupSize' in toks_text
    reads_index = 'GroupIndex' in toks_text
    reads_fee = ',Fee' in toks_text
    sizes = list(range(1, 17)) if reads_size else [2, 3, 16]
    fees = info.num_values(0, MAXU64, (0, 1000, MAXCOST, MAXCOST + 1, MAXU64)) if reads_fee else [1000, MAXCOST + 1]
    out = []
    for size in sizes:
        idxs = list(range(size)) if (reads_index or reads_size) else sorted(set([0, size - 1]))
        for idx in idxs:
            for fee in fees:
                for na in (0, 1):
                    for gfee in (fees if 'gtxn,0,Fee' in toks_text else [1000]):
                        txns = {}
                        for i in set([idx, 0, 1]) & set(range(size)):
                            txns[i] = {'Fee': fee if i == idx else gfee, 'NumAppArgs': na, 'Amount': 5, 'TypeEnum': 1, 'OnCompletion': 0, 'ApplicationID': 0,
                                       'RekeyTo': 'ZERO', 'CloseRemainderTo': 'ZERO', 'AssetCloseTo': 'ZERO', 'Sender': 'CREATOR'}
                        if idx == 0 and 'gtxn,0,Fee' in toks_text:
                            txns[0]['Fee'] = fee
                        out.append((size, idx, txns))
    return out
