"""Translator + introspection extractor: regenerates lean/TealerModel/Generated/*.lean from /repo on every run
(DESIGN §4.1).  Files are rewritten only when their content changes (so lake rebuilds only then).

* OpTable.lean   — for every opcode sample line (the repository's parsing corpus + the immediate families):
                   what the REAL parse_line builds: class, printed form, stack_pop_size, stack_push_size, version, mode.
* Consts.lean    — constants and enum tables read from the imported modules.
* Leaf.lean      — leaf decision functions translated from the Python AST (fail-closed).
"""
import ast
import re, inspect, io, contextlib, os, sys, logging
logging.disable(logging.CRITICAL)
HERE = os.path.dirname(os.path.abspath(__file__))
ROOT = os.path.abspath(os.path.join(HERE, '..'))
GEN = os.environ.get('VERIF_GEN_DIR') or os.path.join(ROOT, 'lean', 'TealerModel', 'Generated')   # VERIF_GEN_DIR: development sweeps against a scratch copy of the repository
sys.path.insert(0, HERE)


def lean_str(s):
    return '"' + s.replace('\\', '\\\\').replace('"', '\\"').replace('\n', '\\n') + '"'


def write_if_changed(path, text):
    os.makedirs(os.path.dirname(path), exist_ok=True)
    old = open(path).read() if os.path.exists(path) else None
    if old != text:
        tmp = path + '.tmp'
        with open(tmp, 'w') as f:
            f.write(text)
        os.replace(tmp, path)
        return True
    return False


FAMILIES = {
    'dig': range(0, 256), 'cover': range(0, 256), 'uncover': range(0, 256), 'bury': range(1, 256),
    'popn': range(0, 256), 'dupn': range(0, 256), 'frame_dig': range(-8, 9), 'frame_bury': range(-8, 9),
}


def sample_lines():
    import gen
    lines = list(dict.fromkeys(gen.opcode_pool()))
    fam = []
    for op, rng in FAMILIES.items():
        for n in rng:
            fam.append(f"{op} {n}")
    for k in range(0, 9):
        fam.append("pushints " + " ".join(str(i) for i in range(k)) if k else "pushints")
        fam.append("pushbytess " + " ".join(f"0x0{i}" for i in range(k)) if k else "pushbytess")
        fam.append("switch " + " ".join(f"l{i}" for i in range(k)) if k else "switch")
        fam.append("match " + " ".join(f"l{i}" for i in range(k)) if k else "match")
    # a label may be listed more than once: every listed label is an operand / a case
    for k in range(2, 6):
        fam.append("match " + " ".join("l0" for _ in range(k)))
        fam.append("switch " + " ".join("l0" for _ in range(k)))
        fam.append("match " + " ".join(f"l{i % 2}" for i in range(k)))
        fam.append("switch " + " ".join(f"l{i % 2}" for i in range(k)))
    for a in range(0, 4):
        for r in range(0, 4):
            fam.append(f"proto {a} {r}")
    ctl = ["b l", "bz l", "bnz l", "callsub l", "retsub", "err", "return", "assert", "intcblock 1 2 3", "bytecblock 0x01 0x02",
           "intc 0", "intc_0", "intc_1", "intc_2", "intc_3", "bytec 0", "bytec_0", "bytec_1", "bytec_2", "bytec_3", "l:", "#pragma version 8",
           # opcodes whose COST depends on an immediate: the second curve (the repository's corpus only has Secp256k1)
           "ecdsa_verify Secp256r1", "ecdsa_pk_decompress Secp256r1"]
    return lines, fam, ctl


NO_VARIANTS = ('pushints', 'pushbytess', 'switch', 'match', 'proto', 'intcblock', 'bytecblock', '#pragma')

def immediate_variants(lines):
    """(variant line, index of its base line): every decimal immediate of a non-family sample replaced by 0, 1, 2 and 255.
    The AVM's stack effect, class, version and mode of these opcodes do not depend on the VALUE of an immediate."""
    out = []
    for idx, l in enumerate(lines):
        w = l.split()
        if not w or w[0] in FAMILIES or w[0] in NO_VARIANTS: continue
        for k in range(1, len(w)):
            if not re.fullmatch(r'\d+', w[k]): continue
            for v in ('0', '1', '2', '255'):
                if w[k] != v: out.append((' '.join(w[:k] + [v] + w[k + 1:]), idx))
    return out


def op_rows():
    from tealer.teal.instructions.parse_instruction import parse_line
    lines, fam, ctl = sample_lines()
    rows, errors = [], []
    plain_lines = lines + ctl
    variants = immediate_variants(plain_lines)
    for group, ls in (('corpus', lines), ('family', fam), ('control', ctl), ('variant', [v for v, _ in variants])):
        for l in ls:
            try:
                buf = io.StringIO()
                with contextlib.redirect_stdout(buf), contextlib.redirect_stderr(buf):
                    i = parse_line(l)
                if i is None:
                    continue
                mode = {'Any': 2, 'Stateless': 0, 'Stateful': 1}.get(str(i.mode), 9)
                rows.append((group, l, type(i).__name__, str(i), int(i.stack_pop_size), int(i.stack_push_size), int(i.version), mode))
            except BaseException as e:  # noqa
                errors.append(f"parse_line({l!r}) raised {type(e).__name__}")
    return rows, errors


CHUNK = 40

def render_table(ns, rows, header):
    """rows of the non-family samples, in chunks (a single 2000-element literal exceeds Lean's recursion depth)"""
    out = [header, f"namespace {ns}", ""]
    names = []
    for k in range(0, len(rows), CHUNK):
        nm = f"opTable{k // CHUNK}"
        names.append(nm)
        out.append(f"def {nm} : List (String × String × String × Nat × Nat × Nat × Nat) := [")
        out.append(",\n".join(f"  ({lean_str(l)}, {lean_str(cls)}, {lean_str(txt)}, {po}, {pu}, {ver}, {mode})" for (g, l, cls, txt, po, pu, ver, mode) in rows[k:k + CHUNK]))
        out.append("]")
        out.append("")
    out.append("/-- (sample line, class, printed form, pops, pushes, version, mode) -/")
    out.append("def opTableChunks : List (List (String × String × String × Nat × Nat × Nat × Nat)) := [" + ", ".join(names) + "]")
    out.append("def opTable : List (String × String × String × Nat × Nat × Nat × Nat) := opTableChunks.flatten")
    out.append("")
    return out


def gen_optable():
    rows, errors = op_rows()
    errors = [e for e in errors if 'label: add' not in e]
    plain = [r for r in rows if r[0] not in ('family', 'variant')]
    fam = [r for r in rows if r[0] == 'family']
    var = [r for r in rows if r[0] == 'variant']
    out = render_table("Tealer.Generated", plain, "/- REGENERATED on every run by harness/extract.py from /repo (do not edit). -/")
    out.append("/-- immediate families: (opcode, immediate or operand count, second immediate, pops, pushes) as built by the real parse_line -/")
    body = []
    for (g, l, cls, txt, po, pu, ver, mode) in fam:
        w = l.split()
        op = w[0]
        if op in ('pushints', 'pushbytess', 'switch', 'match'):
            a, b = len(w) - 1, 0
        elif op == 'proto':
            a, b = int(w[1]), int(w[2])
        else:
            a, b = int(w[1]), 0
        body.append(f"  ({lean_str(op)}, {a}, {b}, {po}, {pu})")
    fnames = []
    for k in range(0, len(body), 64):
        nm = f"families{k // 64}"
        fnames.append(nm)
        out.append(f"def {nm} : List (String × Int × Nat × Nat × Nat) := [")
        out.append(",\n".join(body[k:k + 64]))
        out.append("]")
    out.append("def familiesChunks : List (List (String × Int × Nat × Nat × Nat)) := [" + ", ".join(fnames) + "]")
    out.append("def families : List (String × Int × Nat × Nat × Nat) := familiesChunks.flatten")
    # immediate variants: (variant line, base line, class, pops, pushes, version, mode) as built by the real parse_line
    lines_, fam_, ctl_ = sample_lines()
    base_of = dict(immediate_variants(lines_ + ctl_))
    plain_lines = lines_ + ctl_
    vbody = [f"  ({lean_str(l)}, {lean_str(plain_lines[base_of[l]])}, {lean_str(cls)}, {po}, {pu}, {ver}, {mode})" for (g, l, cls, txt, po, pu, ver, mode) in var if l in base_of]
    vnames = []
    for k in range(0, len(vbody), 64):
        nm = f"immVariants{k // 64}"
        vnames.append(nm)
        out.append(f"def {nm} : List (String × String × String × Nat × Nat × Nat × Nat) := [")
        out.append(",\n".join(vbody[k:k + 64]))
        out.append("]")
    out.append("/-- samples whose decimal immediates were replaced by 0 / 1 / 2 / 255: (variant, base sample, class, pops, pushes, version, mode) -/")
    out.append("def immVariantsChunks : List (List (String × String × String × Nat × Nat × Nat × Nat)) := [" + ", ".join(vnames) + "]")
    out += ["", "end Tealer.Generated", ""]
    return "\n".join(out), rows, errors


def enum_conversion_tables(fn, enum):
    """teal_enums.oncompletion_to_tealer_type / transaction_type_to_tealer_type: the two dictionary literals of the function,
    read from its AST (so that EVERY key is in the generated table), after checking that the function still is
    `if not isinstance(value, int): value = ENUM_NAMES_TO_INT[value]` / `return INT_TO_TYPE[value]`.
    -> (rows by int, rows by name); a name whose int is not a key of INT_TO_TYPE raises KeyError like an unknown name"""
    import textwrap
    tree = ast.parse(textwrap.dedent(inspect.getsource(fn))).body[0]
    body = [st for st in tree.body if not (isinstance(st, ast.Expr) and isinstance(st.value, ast.Constant))]
    if len(body) != 4: raise Untranslatable(f"{fn.__name__}: unexpected shape")
    d = {}
    for st in body[:2]:
        if not (isinstance(st, ast.Assign) and len(st.targets) == 1 and isinstance(st.targets[0], ast.Name) and isinstance(st.value, ast.Dict)):
            raise Untranslatable(f"{fn.__name__}: expected two dictionary literals")
        d[st.targets[0].id] = st.value
    if set(d) != {'ENUM_NAMES_TO_INT', 'INT_TO_TYPE'}: raise Untranslatable(f"{fn.__name__}: dictionaries {sorted(d)}")
    if ast.unparse(body[2]) != "if not isinstance(value, int):\n    value = ENUM_NAMES_TO_INT[value]" or ast.unparse(body[3]) != "return INT_TO_TYPE[value]":
        raise Untranslatable(f"{fn.__name__}: the lookup is no longer `INT_TO_TYPE[value]` after the name conversion")
    names, ints = {}, {}
    for k, v in zip(d['ENUM_NAMES_TO_INT'].keys, d['ENUM_NAMES_TO_INT'].values):
        if not (isinstance(k, ast.Constant) and isinstance(k.value, str) and isinstance(v, ast.Constant) and isinstance(v.value, int)): raise Untranslatable(f"{fn.__name__}: name table entry")
        names[k.value] = v.value
    for k, v in zip(d['INT_TO_TYPE'].keys, d['INT_TO_TYPE'].values):
        if not (isinstance(k, ast.Constant) and isinstance(k.value, int) and isinstance(v, ast.Attribute) and isinstance(v.value, ast.Name) and v.value.id == 'TealerTransactionType'):
            raise Untranslatable(f"{fn.__name__}: type table entry")
        ints[k.value] = int(getattr(enum, v.attr).value)
    return sorted(ints.items()), [(n, ints[i]) for n, i in names.items() if i in ints]


HIER_INS = ["Int", "PushInt", "IntcInstruction", "Addr", "Txn", "Gtxn", "Gtxns", "Global", "Eq", "Neq", "Less", "LessE", "Greater", "GreaterE",
            "And", "Or", "Not", "Add", "Sub", "Assert", "Return", "Err", "BZ", "BNZ", "TealerCustomErrInstruction", "B", "Callsub", "Retsub",
            "Switch", "Match", "Label", "Pragma", "Intcblock"]
HIER_TXF = ["RekeyTo", "CloseRemainderTo", "AssetCloseTo", "Sender", "Fee", "TypeEnum", "OnCompletion", "ApplicationID", "GroupIndex"]
HIER_GF = ["GroupSize", "ZeroAddress", "CreatorAddress"]


def class_hierarchy():
    from tealer.teal.instructions import instructions as I
    from tealer.teal.instructions import transaction_field as TF
    from tealer.teal import global_field as GF
    out = []
    for mod, names in ((I, HIER_INS), (TF, HIER_TXF), (GF, HIER_GF)):
        classes = [c for c in vars(mod).values() if inspect.isclass(c)]
        for n in names:
            base = getattr(mod, n)
            out.append((n, sorted({c.__name__ for c in classes if issubclass(c, base)})))
    return out


def gen_consts():
    from tealer.utils import algorand_constants as AC
    from tealer.utils import teal_enums as TE
    from tealer.analyses.dataflow.transaction_context import int_fields, txn_types, addr_fields, fee_field
    from tealer.detectors import all_detectors
    from tealer.detectors.abstract_detector import AbstractDetector
    nat_list = lambda xs: "[" + ", ".join(str(int(x.value) if hasattr(x, 'value') else int(x)) for x in xs) + "]"
    dets = sorted((d.NAME, str(d.TYPE)) for n, d in vars(all_detectors).items() if inspect.isclass(d) and issubclass(d, AbstractDetector) and d is not AbstractDetector)
    oc_ints, oc_names = enum_conversion_tables(TE.oncompletion_to_tealer_type, TE.TealerTransactionType)
    ty_ints, ty_names = enum_conversion_tables(TE.transaction_type_to_tealer_type, TE.TealerTransactionType)
    out = ["/- REGENERATED on every run by harness/extract.py from /repo (do not edit). -/",
           "namespace Tealer.Generated", "",
           "/-- for every instruction / field class the analyses test with `isinstance`: the classes of its module that ARE instances of it",
           "    (itself and its subclasses).  The views of PyView.lean read `isinstance(x, C)` as `type(x) is C` (one exception:",
           "    IntcInstruction), which is right exactly when this table is the one of the specification. -/",
           "def classHierarchy : List (String × List String) := [" + ", ".join(
               f"({lean_str(n)}, [" + ", ".join(lean_str(x) for x in subs) + "])" for n, subs in class_hierarchy()) + "]",
           f"def MAX_GROUP_SIZE : Nat := {AC.MAX_GROUP_SIZE}",
           f"def MAX_UINT64 : Nat := {AC.MAX_UINT64}",
           f"def MAX_TRANSACTION_COST : Nat := {AC.MAX_TRANSACTION_COST}",
           f"def ZERO_ADDRESS : String := {lean_str(AC.ZERO_ADDRESS)}",
           f"def ALL_TRANSACTION_TYPES : List Nat := {nat_list(TE.ALL_TRANSACTION_TYPES)}",
           f"def APPLICATION_TRANSACTION_TYPES : List Nat := {nat_list(TE.APPLICATION_TRANSACTION_TYPES)}",
           f"def TYPEENUM_TRANSACTION_TYPES : List Nat := {nat_list(TE.TYPEENUM_TRANSACTION_TYPES)}",
           f"def sizesU : List Nat := {nat_list(int_fields.universal_sets[int_fields.group_size_key])}",
           f"def indicesU : List Nat := {nat_list(int_fields.universal_sets[int_fields.group_index_key])}",
           f"def txnTypeU : List Nat := {nat_list(txn_types.universal_sets[txn_types.transaction_type_key])}",
           "def oncompletionTable : List (Nat × Nat) := [" + ", ".join(f"({i}, {t})" for i, t in oc_ints) + "]",
           "def typeEnumTable : List (Nat × Nat) := [" + ", ".join(f"({i}, {t})" for i, t in ty_ints) + "]",
           "def oncompletionNames : List (String × Nat) := [" + ", ".join(f"({lean_str(n)}, {t})" for n, t in oc_names) + "]",
           "def typeEnumNames : List (String × Nat) := [" + ", ".join(f"({lean_str(n)}, {t})" for n, t in ty_names) + "]",
           f"def addrMarkers : List String := [{lean_str(addr_fields.ANY_ADDRESS)}, {lean_str(addr_fields.NO_ADDRESS)}, {lean_str(addr_fields.SOME_ADDRESS)}, {lean_str(addr_fields.CREATOR_ADDRESS)}]",
           f"def ANY_ADDRESS : String := {lean_str(addr_fields.ANY_ADDRESS)}",
           f"def NO_ADDRESS : String := {lean_str(addr_fields.NO_ADDRESS)}",
           f"def SOME_ADDRESS : String := {lean_str(addr_fields.SOME_ADDRESS)}",
           f"def CREATOR_ADDRESS : String := {lean_str(addr_fields.CREATOR_ADDRESS)}",
           f"def addrBaseKeys : List String := [" + ", ".join(lean_str(k) for k in addr_fields.AddrFields.BASE_KEYS) + "]",
           f"def feeBaseKeys : List String := [" + ", ".join(lean_str(k) for k in fee_field.FeeField.BASE_KEYS) + "]",
           f"def intBaseKeys : List String := [" + ", ".join(lean_str(k) for k in int_fields.GroupIndices.BASE_KEYS) + "]",
           f"def detectors : List (String × String) := [" + ", ".join(f"({lean_str(n)}, {lean_str(t)})" for n, t in dets) + "]",
           "", "end Tealer.Generated", ""]
    return "\n".join(out)


# ---------------------------------------------------------------------------------------------
# AST translator for the leaf decision functions

class Untranslatable(Exception):
    pass


CMP_CLASSES = {'Eq': '.eq', 'Neq': '.neq', 'Less': '.lt', 'LessE': '.le', 'Greater': '.gt', 'GreaterE': '.ge'}


class FeeTranslator:
    """FeeField._union / _intersection / _get_asserted_max_value  ->  Lean over the structure FeeValue"""
    def __init__(self):
        self.consts = {}

    def expr(self, e):
        if isinstance(e, ast.BoolOp):
            op = ' && ' if isinstance(e.op, ast.And) else ' || '
            return '(' + op.join(self.expr(v) for v in e.values) + ')'
        if isinstance(e, ast.UnaryOp) and isinstance(e.op, ast.Not):
            return f"(!{self.expr(e.operand)})"
        if isinstance(e, ast.Attribute) and isinstance(e.value, ast.Name):
            fld = {'is_unknown': 'isUnknown', 'value': 'value'}.get(e.attr)
            if fld is None: raise Untranslatable(ast.dump(e))
            return f"{e.value.id}.{fld}"
        if isinstance(e, ast.Compare) and len(e.ops) == 1:
            l, r = self.expr(e.left), self.expr(e.comparators[0])
            o = {ast.Gt: '>', ast.Lt: '<', ast.GtE: '≥', ast.LtE: '≤', ast.Eq: '==', ast.NotEq: '!='}.get(type(e.ops[0]))
            if o is None: raise Untranslatable(ast.dump(e))
            return f"(decide ({l} {o} {r}))" if o not in ('==', '!=') else f"({l} {o} {r})"
        if isinstance(e, ast.Name):
            if e.id in ('MAX_TRANSACTION_COST', 'MAX_UINT64'): return f"Tealer.Generated.{e.id}"
            return e.id
        if isinstance(e, ast.Constant) and isinstance(e.value, (int, bool)):
            return str(e.value).lower() if isinstance(e.value, bool) else str(e.value)
        if isinstance(e, ast.IfExp):
            return f"(if {self.expr(e.test)} then {self.expr(e.body)} else {self.expr(e.orelse)})"
        if isinstance(e, ast.Call) and isinstance(e.func, ast.Name) and e.func.id == 'FeeValue':
            kw = {k.arg: self.expr(k.value) for k in e.keywords}
            unknown = kw.get('is_unknown', 'false')
            value = kw.get('value', 'Tealer.Generated.MAX_UINT64')
            return f"({{ isUnknown := {unknown}, value := {value} }} : GFeeValue)"
        if isinstance(e, ast.Call) and isinstance(e.func, ast.Name) and e.func.id == 'max' and len(e.args) == 2:
            return f"(max {self.expr(e.args[0])} {self.expr(e.args[1])})"
        if isinstance(e, ast.BinOp) and isinstance(e.op, ast.Sub):
            return f"({self.expr(e.left)} - {self.expr(e.right)})"
        if isinstance(e, ast.Tuple):
            return "(" + ", ".join(self.expr(x) for x in e.elts) + ")"
        if isinstance(e, ast.Call) and isinstance(e.func, ast.Name) and e.func.id == 'isinstance':
            cls = e.args[1].id if isinstance(e.args[1], ast.Name) else None
            if cls in CMP_CLASSES and isinstance(e.args[0], ast.Name):
                return f"({e.args[0].id} == {CMP_CLASSES[cls]})"
        raise Untranslatable(ast.dump(e)[:200])

    def body(self, stmts, fallthrough=None):
        """sequence of `if ...: return X` / `return X` statements -> nested if-then-else"""
        if not stmts:
            if fallthrough is None: raise Untranslatable("function may fall off its end")
            return fallthrough
        s = stmts[0]
        if isinstance(s, ast.Expr) and isinstance(s.value, ast.Constant):   # docstring
            return self.body(stmts[1:], fallthrough)
        if isinstance(s, ast.Return):
            return self.expr(s.value)
        if isinstance(s, ast.If):
            rest = self.body(stmts[1:], fallthrough) if len(stmts) > 1 or fallthrough is not None else None
            els = self.body(s.orelse, rest) if s.orelse else rest
            if els is None: raise Untranslatable("if without else at the end")
            return f"(if {self.expr(s.test)} then {self.body(s.body, rest)} else {els})"
        raise Untranslatable(ast.dump(s)[:200])


class IntTranslator(FeeTranslator):
    """GroupIndices._get_asserted_int_values -> Lean over lists of naturals.  Adds: list literals, `[i for i in U if i OP c]`,
    `U = list(x)`, and the in-place `if c in U: U.remove(c)` (the first occurrence is removed, as list.remove does)."""
    def expr(self, e):
        if isinstance(e, ast.List):
            return "[" + ", ".join(self.expr(x) for x in e.elts) + "]"
        if isinstance(e, ast.ListComp) and len(e.generators) == 1 and isinstance(e.elt, ast.Name):
            g = e.generators[0]
            if isinstance(g.target, ast.Name) and g.target.id == e.elt.id and isinstance(g.iter, ast.Name) and len(g.ifs) == 1 and not g.is_async:
                return f"({g.iter.id}.filter fun {g.target.id} => {self.expr(g.ifs[0])})"
            raise Untranslatable(ast.dump(e)[:200])
        if isinstance(e, ast.Compare) and len(e.ops) == 1 and isinstance(e.ops[0], ast.In):
            return f"({self.expr(e.comparators[0])}.contains {self.expr(e.left)})"
        return super().expr(e)

    def body(self, stmts, fallthrough=None):
        if stmts:
            s = stmts[0]
            if (isinstance(s, ast.Assign) and len(s.targets) == 1 and isinstance(s.targets[0], ast.Name) and isinstance(s.value, ast.Call)
                    and isinstance(s.value.func, ast.Name) and s.value.func.id == 'list' and len(s.value.args) == 1 and isinstance(s.value.args[0], ast.Name)):
                return f"(let {s.targets[0].id} := {s.value.args[0].id}; {self.body(stmts[1:], fallthrough)})"
            if (isinstance(s, ast.If) and not s.orelse and len(s.body) == 1 and isinstance(s.body[0], ast.Expr) and isinstance(s.body[0].value, ast.Call)
                    and isinstance(s.body[0].value.func, ast.Attribute) and s.body[0].value.func.attr == 'remove'
                    and isinstance(s.body[0].value.func.value, ast.Name) and len(s.body[0].value.args) == 1):
                v = s.body[0].value.func.value.id
                x = self.expr(s.body[0].value.args[0])
                return f"(let {v} := (if {self.expr(s.test)} then {v}.erase {x} else {v}); {self.body(stmts[1:], fallthrough)})"
        return super().body(stmts, fallthrough)


class SetTranslator(FeeTranslator):
    """set-valued lattice operations (AddrFields / GroupIndices / TxnType `_union`, `_intersection`, `_universal_set`,
    `_null_set`) -> Lean over strictly sorted lists (Tealer.OSet): `x in a`, `a | b`, `a & b`, `set(a)`, `set([c])`, and calls
    of the class's own one-line `_universal_set()` / `_null_set()` methods, which are translated in place"""
    CONSTS = ('ANY_ADDRESS', 'NO_ADDRESS', 'SOME_ADDRESS', 'CREATOR_ADDRESS')

    def __init__(self, cls):
        super().__init__()
        self.cls = cls

    def inline(self, name):
        import textwrap
        tree = ast.parse(textwrap.dedent(inspect.getsource(getattr(self.cls, name)))).body[0]
        return self.body(tree.body)

    def expr(self, e):
        if isinstance(e, ast.Name) and e.id in self.CONSTS:
            return f"Tealer.Generated.{e.id}"
        if isinstance(e, ast.Compare) and len(e.ops) == 1 and isinstance(e.ops[0], ast.In):
            return f"({self.expr(e.comparators[0])}.contains {self.expr(e.left)})"
        if isinstance(e, ast.BinOp) and isinstance(e.op, ast.BitOr):
            return f"(Tealer.OSet.union {self.expr(e.left)} {self.expr(e.right)})"
        if isinstance(e, ast.BinOp) and isinstance(e.op, ast.BitAnd):
            return f"(Tealer.OSet.inter {self.expr(e.left)} {self.expr(e.right)})"
        if isinstance(e, ast.Call) and isinstance(e.func, ast.Name) and e.func.id == 'set' and len(e.args) == 1 and not e.keywords:
            a = e.args[0]
            if isinstance(a, ast.Name): return a.id                       # a copy of a set is the set
            if isinstance(a, ast.List): return "(Tealer.OSet.ofList [" + ", ".join(self.expr(x) for x in a.elts) + "])"
            raise Untranslatable(ast.dump(e)[:200])
        if (isinstance(e, ast.Call) and isinstance(e.func, ast.Attribute) and isinstance(e.func.value, ast.Name) and e.func.value.id == 'self'
                and e.func.attr in ('_universal_set', '_null_set') and not e.args and not e.keywords):
            return self.inline(e.func.attr)
        return super().expr(e)


class DetectorTranslator(FeeTranslator):
    """the nested `checks_field(block_ctx)` predicate of a detector -> Lean over the fields detectors read (GCtx)"""
    ATTR = {('rekeyto', 'any_addr'): 'rekeytoAny', ('closeto', 'any_addr'): 'closetoAny', ('assetcloseto', 'any_addr'): 'assetclosetoAny',
            ('sender', 'any_addr'): 'senderAny'}
    DIRECT = {'transaction_types': 'types', 'max_fee': 'maxFee', 'max_fee_unknown': 'maxFeeUnknown'}

    def __init__(self, arg, enum):
        super().__init__()
        self.arg, self.enum = arg, enum

    def expr(self, e):
        if isinstance(e, ast.Attribute):
            if isinstance(e.value, ast.Attribute) and isinstance(e.value.value, ast.Name) and e.value.value.id == self.arg:
                f = self.ATTR.get((e.value.attr, e.attr))
                if f is None: raise Untranslatable(ast.dump(e)[:200])
                return f"c.{f}"
            if isinstance(e.value, ast.Name) and e.value.id == self.arg:
                f = self.DIRECT.get(e.attr)
                if f is None: raise Untranslatable(ast.dump(e)[:200])
                return f"c.{f}"
            if isinstance(e.value, ast.Name) and e.value.id == 'TealerTransactionType':
                return str(int(getattr(self.enum, e.attr).value))        # the enum member's number, read from /repo
            raise Untranslatable(ast.dump(e)[:200])
        if isinstance(e, ast.Compare) and len(e.ops) == 1 and isinstance(e.ops[0], ast.In):
            return f"({self.expr(e.comparators[0])}.contains {self.expr(e.left)})"
        if isinstance(e, ast.Compare) and len(e.ops) == 1 and isinstance(e.ops[0], ast.NotIn):
            return f"(!({self.expr(e.comparators[0])}.contains {self.expr(e.left)}))"
        return super().expr(e)


def gen_detector_predicates():
    import textwrap
    from tealer.detectors import all_detectors
    from tealer.utils.teal_enums import TealerTransactionType
    names = {'rekey-to': 'rekeyTo', 'can-close-account': 'canCloseAccount', 'can-close-asset': 'canCloseAsset', 'missing-fee-check': 'feeCheck',
             'is-updatable': 'isUpdatable', 'is-deletable': 'isDeletable', 'unprotected-updatable': 'anyoneCanUpdate', 'unprotected-deletable': 'anyoneCanDelete'}
    out, errors = ["/-- the fields of a block context that the detector predicates read -/", "structure GCtx where",
                   "  rekeytoAny : Bool", "  closetoAny : Bool", "  assetclosetoAny : Bool", "  senderAny : Bool", "  types : List Nat",
                   "  maxFee : Nat", "  maxFeeUnknown : Bool", ""], []
    by_name = {d.NAME: d for n, d in vars(all_detectors).items() if inspect.isclass(d) and hasattr(d, 'NAME')}
    for dn, ln in names.items():
        try:
            cls = by_name[dn]
            tree = ast.parse(textwrap.dedent(inspect.getsource(cls.detect))).body[0]
            fns = [n for n in ast.walk(tree) if isinstance(n, ast.FunctionDef) and n.name == 'checks_field']
            if len(fns) != 1: raise Untranslatable(f"{len(fns)} nested checks_field functions")
            fn = fns[0]
            arg = fn.args.args[0].arg
            body = DetectorTranslator(arg, TealerTransactionType).body([st for st in fn.body])
            out += [f"/-- translated from {cls.__name__}.detect.checks_field ({dn}) -/", f"def checks_{ln} (c : GCtx) : Bool :=", f"  {body}", ""]
        except (Untranslatable, KeyError) as e:
            errors.append(f"{dn}.checks_field: {e}")
            out += [f"-- {dn}.checks_field could not be translated: {e}", ""]
    return out, errors


class ValidatedTranslator(FeeTranslator):
    """detectors/utils.py validated_in_block -> Lean, polymorphic in the context type: `function.transaction_context(block)`
    is `self`, `.gtxn_context(i)` is `gtxn i`, `.group_indices` is `groupIndices`, `checks_field(x)` is `chk x`; handles
    `if x is not None:` (match on the option) and the loop `for i in L: if not P: return False` ... `return True` (List.all)"""
    def is_ctx(self, e):
        return (isinstance(e, ast.Call) and isinstance(e.func, ast.Attribute) and e.func.attr == 'transaction_context'
                and isinstance(e.func.value, ast.Name) and e.func.value.id == 'function' and len(e.args) == 1
                and isinstance(e.args[0], ast.Name) and e.args[0].id == 'block')

    def expr(self, e):
        if self.is_ctx(e): return "self"
        if isinstance(e, ast.Call) and isinstance(e.func, ast.Attribute) and e.func.attr == 'gtxn_context' and self.is_ctx(e.func.value) and len(e.args) == 1:
            return f"(gtxn {self.expr(e.args[0])})"
        if isinstance(e, ast.Attribute) and e.attr == 'group_indices' and self.is_ctx(e.value):
            return "groupIndices"
        if isinstance(e, ast.Call) and isinstance(e.func, ast.Name) and e.func.id == 'checks_field' and len(e.args) == 1:
            return f"(chk {self.expr(e.args[0])})"
        return super().expr(e)

    def body(self, stmts, fallthrough=None):
        if stmts:
            s = stmts[0]
            # `if x is not None: <returns>` -> match on the option
            if (isinstance(s, ast.If) and isinstance(s.test, ast.Compare) and len(s.test.ops) == 1 and isinstance(s.test.ops[0], ast.IsNot)
                    and isinstance(s.test.left, ast.Name) and isinstance(s.test.comparators[0], ast.Constant) and s.test.comparators[0].value is None and not s.orelse):
                v = s.test.left.id
                rest = self.body(stmts[1:], fallthrough)
                return f"(match {v} with | some {v} => {self.body(s.body, None)} | none => {rest})"
            # `for i in L: if not P: return False` then `return True`
            if (isinstance(s, ast.For) and isinstance(s.target, ast.Name) and not s.orelse and len(s.body) == 1 and isinstance(s.body[0], ast.If)
                    and not s.body[0].orelse and isinstance(s.body[0].test, ast.UnaryOp) and isinstance(s.body[0].test.op, ast.Not)
                    and len(s.body[0].body) == 1 and isinstance(s.body[0].body[0], ast.Return) and isinstance(s.body[0].body[0].value, ast.Constant)
                    and s.body[0].body[0].value.value is False):
                rest = [x for x in stmts[1:] if not (isinstance(x, ast.Expr) and isinstance(x.value, ast.Constant))]
                if len(rest) == 1 and isinstance(rest[0], ast.Return) and isinstance(rest[0].value, ast.Constant) and rest[0].value.value is True:
                    return f"({self.expr(s.iter)}.all fun {s.target.id} => {self.expr(s.body[0].test.operand)})"
                raise Untranslatable("loop not followed by `return True`")
            if isinstance(s, ast.If) and not s.orelse and fallthrough is None and len(stmts) > 1:
                # `if c: return X` followed by more statements
                return f"(if {self.expr(s.test)} then {self.body(s.body, None)} else {self.body(stmts[1:], None)})"
        return super().body(stmts, fallthrough)


class AddrLeafTranslator(SetTranslator):
    """AddrFields._get_asserted_address -> Lean over the model's `Op` (the instruction classes the function tests are mapped
    to the model's constructors; `ins.addr` is bound by a match; the f-string naming an unknown address uses the printed
    form of the instruction, passed as `text`)"""
    GLOBAL_FIELDS = {'ZeroAddress': 'ZeroAddress', 'CreatorAddress': 'CreatorAddress'}

    def global_test(self, e):
        # isinstance(ins, Global) and isinstance(ins.field, X)
        if isinstance(e, ast.BoolOp) and isinstance(e.op, ast.And) and len(e.values) == 2:
            a, b = e.values
            if (self.isinst(a) == ('ins', 'Global') and isinstance(b, ast.Call) and isinstance(b.func, ast.Name) and b.func.id == 'isinstance'
                    and isinstance(b.args[0], ast.Attribute) and isinstance(b.args[0].value, ast.Name) and b.args[0].value.id == 'ins'
                    and b.args[0].attr == 'field' and isinstance(b.args[1], ast.Name) and b.args[1].id in self.GLOBAL_FIELDS):
                return f'(ins == Tealer.Op.global "{self.GLOBAL_FIELDS[b.args[1].id]}")'
        return None

    def isinst(self, e):
        if (isinstance(e, ast.Call) and isinstance(e.func, ast.Name) and e.func.id == 'isinstance' and isinstance(e.args[0], ast.Name)
                and isinstance(e.args[1], ast.Name)):
            return (e.args[0].id, e.args[1].id)
        return None

    def expr(self, e):
        g = self.global_test(e)
        if g is not None: return g
        if isinstance(e, ast.Attribute) and isinstance(e.value, ast.Name) and e.value.id == 'ins' and e.attr == 'addr':
            return "addr_"
        if isinstance(e, ast.Name) and e.id == 'ZERO_ADDRESS':
            return "Tealer.Generated.ZERO_ADDRESS"
        if isinstance(e, ast.JoinedStr):
            parts = []
            for v in e.values:
                if isinstance(v, ast.Constant) and isinstance(v.value, str): parts.append(lean_str(v.value))
                elif isinstance(v, ast.FormattedValue) and isinstance(v.value, ast.Name) and v.value.id == 'ins' and v.conversion == -1 and v.format_spec is None:
                    parts.append("text")
                elif isinstance(v, ast.FormattedValue) and isinstance(v.value, ast.Name) and v.conversion == -1 and v.format_spec is None:
                    parts.append(self.expr(v.value))
                else: raise Untranslatable(ast.dump(e)[:200])
            return "(" + " ++ ".join(parts) + ")"
        return super().expr(e)

    def body(self, stmts, fallthrough=None):
        if stmts and isinstance(stmts[0], ast.If) and self.isinst(stmts[0].test) == ('ins', 'Addr') and not stmts[0].orelse:
            rest = self.body(stmts[1:], fallthrough)
            return f"(match ins with | Tealer.Op.addr addr_ => {self.body(stmts[0].body, None)} | _ => {rest})"
        if stmts and isinstance(stmts[0], ast.If) and not stmts[0].orelse and fallthrough is None and len(stmts) > 1:
            return f"(if {self.expr(stmts[0].test)} then {self.body(stmts[0].body, None)} else {self.body(stmts[1:], None)})"
        return super().body(stmts, fallthrough)


def gen_leaf():
    from tealer.analyses.dataflow.transaction_context import fee_field
    errors = []
    out = ["/- REGENERATED on every run by harness/extract.py: leaf decision functions translated from the Python AST of /repo. -/",
           "import TealerModel.Syntax", "import TealerModel.OSet", "import TealerModel.Generated.Consts", "namespace Tealer.Generated", "",
           "structure GFeeValue where", "  isUnknown : Bool", "  value : Nat", "deriving DecidableEq, Repr, Inhabited", ""]
    # `structure GFeeValue ... deriving DecidableEq` above is the dataclass FeeValue with FIELD-WISE equality; the worklists of
    # generic.py decide "did this block's value change" with `!=` on these values, so the equality is part of the translation
    try:
        import dataclasses
        fv = fee_field.FeeValue
        flds = [(f.name, f.compare) for f in dataclasses.fields(fv)]
        params_ = getattr(fv, '__dataclass_params__', None)
        if flds != [('is_unknown', True), ('value', True)] or params_ is None or not params_.eq:
            errors.append(f"FeeValue: fields / comparison flags {flds} (eq={getattr(params_, 'eq', None)}): equality is not the field-wise one of the translation")
        elif not (fv(True, 5) != fv(False, 5) and fv(False, 5) != fv(False, 6) and fv(True, 5) == fv(True, 5) and fv(False, 7) == fv(False, 7)):
            errors.append("FeeValue: == / != do not behave field-wise")
    except Exception as e:  # noqa
        errors.append(f"FeeValue: {type(e).__name__}: {e}")
    tr = FeeTranslator()
    for name, lean_name, params in (('_union', 'feeUnion', '(a b : GFeeValue) : GFeeValue'),
                                    ('_intersection', 'feeInter', '(a b : GFeeValue) : GFeeValue'),
                                    ('_get_asserted_max_value', 'feeAssertedMax', '(comparison_ins : Cmp) (compared_value : GFeeValue) : GFeeValue × GFeeValue')):
        try:
            fn = getattr(fee_field.FeeField, name)
            src = inspect.getsource(fn)
            import textwrap
            tree = ast.parse(textwrap.dedent(src)).body[0]
            body = tr.body(tree.body)
            out += [f"/-- translated from fee_field.FeeField.{name} -/", f"def {lean_name} {params} :=", f"  {body}", ""]
        except Untranslatable as e:
            errors.append(f"FeeField.{name}: {e}")
            out += [f"-- FeeField.{name} could not be translated: {e}", ""]
    from tealer.analyses.dataflow.transaction_context import int_fields
    try:
        import textwrap
        fn = int_fields.GroupIndices._get_asserted_int_values
        tree = ast.parse(textwrap.dedent(inspect.getsource(fn))).body[0]
        body = IntTranslator().body(tree.body)
        out += ["/-- translated from int_fields.GroupIndices._get_asserted_int_values -/",
                "def intAssertedValues (comparison_ins : Cmp) (compared_int : Nat) (universal_set : List Nat) : List Nat :=", f"  {body}", ""]
    except Untranslatable as e:
        errors.append(f"GroupIndices._get_asserted_int_values: {e}")
        out += [f"-- GroupIndices._get_asserted_int_values could not be translated: {e}", ""]
    from tealer.analyses.dataflow.transaction_context import addr_fields, txn_types
    for cls, pre, elem in ((addr_fields.AddrFields, 'addr', 'String'), (int_fields.GroupIndices, 'int', 'Nat'), (txn_types.TxnType, 'txnType', 'Nat')):
        for name, suffix in (('_union', 'Union'), ('_intersection', 'Inter')):
            try:
                import textwrap
                tree = ast.parse(textwrap.dedent(inspect.getsource(getattr(cls, name)))).body[0]
                argn = [a.arg for a in tree.args.args]
                if argn != ['self', 'key', 'a', 'b']: raise Untranslatable(f"unexpected signature {argn}")
                body = SetTranslator(cls).body(tree.body)
                out += [f"/-- translated from {cls.__name__}.{name} -/", f"def {pre}{suffix} (a b : List {elem}) : List {elem} :=", f"  {body}", ""]
            except Untranslatable as e:
                errors.append(f"{cls.__name__}.{name}: {e}")
                out += [f"-- {cls.__name__}.{name} could not be translated: {e}", ""]
    try:
        import textwrap
        tree = ast.parse(textwrap.dedent(inspect.getsource(addr_fields.AddrFields._get_asserted_address))).body[0]
        if [a.arg for a in tree.args.args] != ['self', 'ins']: raise Untranslatable("unexpected signature")
        body = AddrLeafTranslator(addr_fields.AddrFields).body(tree.body)
        out += ["/-- translated from AddrFields._get_asserted_address; `text` = str(ins) -/",
                "def addrAsserted (ins : Tealer.Op) (text : String) : List String :=", f"  {body}", ""]
    except Untranslatable as e:
        errors.append(f"AddrFields._get_asserted_address: {e}")
        out += [f"-- AddrFields._get_asserted_address could not be translated: {e}", ""]
    o2, e2 = gen_detector_predicates()
    out += o2; errors += e2
    try:
        import textwrap
        from tealer.detectors import utils as dutils
        tree = ast.parse(textwrap.dedent(inspect.getsource(dutils.validated_in_block))).body[0]
        argn = [a.arg for a in tree.args.args]
        if argn != ['block', 'function', 'checks_field', 'absolute_index']: raise Untranslatable(f"unexpected signature {argn}")
        body = ValidatedTranslator().body(tree.body)
        out += ["/-- translated from detectors/utils.py validated_in_block -/",
                "def validatedInBlock {α : Type} (chk : α → Bool) (self : α) (gtxn : Nat → α) (groupIndices : List Nat) (absolute_index : Option Nat) : Bool :=",
                f"  {body}", ""]
    except Untranslatable as e:
        errors.append(f"validated_in_block: {e}")
        out += [f"-- validated_in_block could not be translated: {e}", ""]
    out += ["end Tealer.Generated", ""]
    return "\n".join(out), errors


def parse_rows():
    """(line, class, printed form, re-parse of the printed form gives an identical instruction?, costs under program versions 1..8)"""
    from tealer.teal.instructions.parse_instruction import parse_line
    from tealer.teal.parse_teal import parse_teal
    lines, fam, ctl = sample_lines()
    rows = []
    skip_cost = ('b ', 'bz ', 'bnz ', 'callsub ', 'switch', 'match', 'l:', '#pragma', 'retsub')
    for l in lines + ctl + [f for f in fam if f.split()[0] in ('pushints', 'pushbytess', 'proto')] + ["dig 3", "cover 2", "uncover 2", "bury 2", "popn 2", "dupn 2", "frame_dig -1", "frame_bury 1"]:
        try:
            buf = io.StringIO()
            with contextlib.redirect_stdout(buf), contextlib.redirect_stderr(buf):
                i = parse_line(l)
                if i is None: continue
                txt = str(i)
                j = parse_line(txt)
                same = j is not None and type(j) is type(i) and str(j) == txt and j.stack_pop_size == i.stack_pop_size and j.stack_push_size == i.stack_push_size and fingerprint(j) == fingerprint(i)
                costs = []
                if not l.startswith(skip_cost):
                    for v in range(1, 9):
                        try:
                            t = parse_teal(f"#pragma version {v}\n{l}\nint 1\nreturn\n")
                            ins = t.instructions[1]
                            costs.append(int(ins.cost))
                        except BaseException:
                            costs.append(999999)
            rows.append((l, type(i).__name__, txt, same, costs))
        except BaseException as e:  # noqa
            rows.append((l, 'ERROR', type(e).__name__, False, []))
    return rows


LINKAGE = {'_prev', '_next', '_line_num', '_source_code_line', '_comment', '_comments_before_ins', '_tealer_comments', '_bb', '_callsub_ins'}


def fingerprint(ins):
    """what makes two parsed instructions IDENTICAL: the class and every immediate (index, field with its own index, value, bytes,
    labels ...), not only the printed form - `replace 0` and `replace` are different instructions even if both print as `replace`"""
    import enum
    def norm(v):
        if isinstance(v, enum.Enum): return ('enum', type(v).__name__, v.name)
        if isinstance(v, (list, tuple)): return [norm(x) for x in v]
        if isinstance(v, (str, int, bool, bytes)) or v is None: return v
        if hasattr(v, '__dict__'): return (type(v).__name__, sorted((k, norm(x)) for k, x in vars(v).items() if k not in LINKAGE))
        return repr(v)
    return (type(ins).__name__, sorted((k, norm(x)) for k, x in vars(ins).items() if k not in LINKAGE))


def gen_parsetable():
    rows = parse_rows()
    out = ["/- REGENERATED on every run by harness/extract.py from /repo (do not edit). -/", "namespace Tealer.Generated", ""]
    names = []
    for k in range(0, len(rows), CHUNK):
        nm = f"parseTable{k // CHUNK}"; names.append(nm)
        out.append(f"def {nm} : List (String × String × Bool × List Nat) := [")
        out.append(",\n".join(f"  ({lean_str(l)}, {lean_str(txt)}, {'true' if same else 'false'}, [{', '.join(str(c) for c in costs)}])" for (l, cls, txt, same, costs) in rows[k:k + CHUNK]))
        out.append("]")
    out.append("/-- (sample line, printed form, printed form parses back to an identical instruction, cost under program versions 1..8) -/")
    out.append("def parseTableChunks : List (List (String × String × Bool × List Nat)) := [" + ", ".join(names) + "]")
    out += ["", "end Tealer.Generated", ""]
    return "\n".join(out), rows


def regenerate():
    res = {'errors': [], 'files': [], 'changed': []}
    try:
        txt, rows, errs = gen_optable()
        res['errors'] += [f"OpTable: {x}" for x in errs]
        if write_if_changed(os.path.join(GEN, 'OpTable.lean'), txt): res['changed'].append('OpTable.lean')
        res['op_rows'] = len(rows)
    except Exception as e:  # noqa
        res['errors'].append(f"OpTable: {type(e).__name__}: {e}")
    try:
        txt, prow = gen_parsetable()
        if write_if_changed(os.path.join(GEN, 'ParseTable.lean'), txt): res['changed'].append('ParseTable.lean')
        res['parse_rows'] = len(prow)
    except Exception as e:  # noqa
        res['errors'].append(f"ParseTable: {type(e).__name__}: {e}")
    try:
        if write_if_changed(os.path.join(GEN, 'Consts.lean'), gen_consts()): res['changed'].append('Consts.lean')
    except Exception as e:  # noqa
        res['errors'].append(f"Consts: {type(e).__name__}: {e}")
    try:
        txt, errs = gen_leaf()
        res['errors'] += [f"Leaf: {x}" for x in errs]
        if write_if_changed(os.path.join(GEN, 'Leaf.lean'), txt): res['changed'].append('Leaf.lean')
    except Exception as e:  # noqa
        res['errors'].append(f"Leaf: {type(e).__name__}: {e}")
    try:
        import matchers_gen
        txt, errs = matchers_gen.gen_matchers()
        res['errors'] += [f"Matchers: {x}" for x in errs]
        if write_if_changed(os.path.join(GEN, 'Matchers.lean'), txt): res['changed'].append('Matchers.lean')
    except Exception as e:  # noqa
        res['errors'].append(f"Matchers: {type(e).__name__}: {e}")
    try:
        import search_gen
        txt, errs = search_gen.gen_search()
        res['errors'] += [f"Search: {x}" for x in errs]
        if write_if_changed(os.path.join(GEN, 'Search.lean'), txt): res['changed'].append('Search.lean')
    except Exception as e:  # noqa
        res['errors'].append(f"Search: {type(e).__name__}: {e}")
    try:
        import flow_gen
        txt, errs = flow_gen.gen_flow()
        res['errors'] += [f"Flow: {x}" for x in errs]
        if write_if_changed(os.path.join(GEN, 'Flow.lean'), txt): res['changed'].append('Flow.lean')
    except Exception as e:  # noqa
        res['errors'].append(f"Flow: {type(e).__name__}: {e}")
    try:
        import group_gen
        txt, errs = group_gen.gen_group()
        res['errors'] += [f"GroupLoop: {x}" for x in errs]
        if write_if_changed(os.path.join(GEN, 'GroupLoop.lean'), txt): res['changed'].append('GroupLoop.lean')
    except Exception as e:  # noqa
        res['errors'].append(f"GroupLoop: {type(e).__name__}: {e}")
    try:
        import stackast_gen
        txt, errs = stackast_gen.gen_stackast()
        res['errors'] += [f"StackAst: {x}" for x in errs]
        if write_if_changed(os.path.join(GEN, 'StackAst.lean'), txt): res['changed'].append('StackAst.lean')
    except Exception as e:  # noqa
        res['errors'].append(f"StackAst: {type(e).__name__}: {e}")
    try:
        import worklist_gen
        txt, errs = worklist_gen.gen_worklist()
        res['errors'] += [f"Worklist: {x}" for x in errs]
        if write_if_changed(os.path.join(GEN, 'Worklist.lean'), txt): res['changed'].append('Worklist.lean')
    except Exception as e:  # noqa
        res['errors'].append(f"Worklist: {type(e).__name__}: {e}")
    try:
        import asserted_gen
        txt, errs = asserted_gen.gen_asserted()
        res['errors'] += [f"Asserted: {x}" for x in errs]
        if write_if_changed(os.path.join(GEN, 'Asserted.lean'), txt): res['changed'].append('Asserted.lean')
    except Exception as e:  # noqa
        res['errors'].append(f"Asserted: {type(e).__name__}: {e}")
    return res


if __name__ == '__main__':
    print(regenerate())
