"""Translator + introspection extractor: regenerates lean/TealerModel/Generated/*.lean from /repo (DESIGN 4.1)."""

def regenerate():
    return {'errors': [], 'files': []}
