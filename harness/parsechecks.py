"""C16 / C19: line-level parsing, printing, versions, modes, costs — exercised on the real parser."""
import contextlib, io, os, random, re, sys
HERE = os.path.dirname(os.path.abspath(__file__))
sys.path.insert(0, HERE)
import extract


def quiet(fn, *a):
    out, err = io.StringIO(), io.StringIO()
    with contextlib.redirect_stdout(out), contextlib.redirect_stderr(err):
        r = fn(*a)
    return r, out.getvalue(), err.getvalue()


fingerprint = extract.fingerprint


def c16(cx):
    from tealer.teal.instructions.parse_instruction import parse_line
    from tealer.teal.parse_teal import parse_teal
    rng = random.Random(f"c16/{cx.seed}")
    lines, fam, ctl = extract.sample_lines()
    pool = lines + ctl + rng.sample(fam, 120 if cx.quick() else len(fam))
    stats = {'lines': 0, 'variants': 0, 'roundtrips': 0, 'int_spellings': 0, 'byte_forms': 0, 'programs': 0}
    def variants(l):
        yield l
        yield "    " + l
        yield "\t" + l + "   "
        yield l + " // trailing comment"
        yield l + "\t// comment with \"quotes\" and // slashes"
        if ' ' in l and '"' not in l:
            yield l.replace(' ', '   ', 1)
    for l in pool:
        try:
            base, _, _ = quiet(parse_line, l)
        except BaseException:
            continue
        if base is None or type(base).__name__ == 'UnsupportedInstruction':
            continue
        stats['lines'] += 1
        want = (type(base).__name__, str(base))
        for v in variants(l):
            stats['variants'] += 1
            try:
                got, _, _ = quiet(parse_line, v)
                g = (type(got).__name__, str(got)) if got is not None else None
            except BaseException as e:
                g = ('EXC', type(e).__name__)
            if g != want:
                cx.violations.append({'kind': 'layout', 'program': v, 'prop': 'C16', 'field': 'variant', 'where': l,
                                      'detail': f"{v!r} parses to {g}, {l!r} parses to {want}", 'src': v, 'env': None})
        if l.startswith('method '):
            continue   # known deviation F19
        try:
            again, _, _ = quiet(parse_line, str(base))
            ok = again is not None and type(again) is type(base) and str(again) == str(base) and fingerprint(again) == fingerprint(base)
        except BaseException:
            ok = False
        stats['roundtrips'] += 1
        if not ok:
            cx.violations.append({'kind': 'roundtrip', 'program': l, 'prop': 'C16', 'field': 'print', 'where': l,
                                  'detail': f"{l!r} prints as {str(base)!r}, which does not parse back to an identical instruction", 'src': l, 'env': None})
    # integer literals: decimal / hex / octal spellings denote the same value
    for _ in range(200 if cx.quick() else 3000):
        n = rng.choice([0, 1, 7, 8, 255, 4096, 2**32, 2**64 - 1, rng.randrange(0, 2**64)])
        forms = [str(n), hex(n), '0' + oct(n)[2:] if n else '0']
        vals = []
        for f in forms:
            for op in ('int', 'pushint'):
                ins, _, _ = quiet(parse_line, f"{op} {f}")
                vals.append(getattr(ins, 'value', None))
        stats['int_spellings'] += 1
        if any(v != n for v in vals):
            cx.violations.append({'kind': 'int-literal', 'program': str(forms), 'prop': 'C16', 'field': 'int', 'where': str(n),
                                  'detail': f"spellings {forms} of {n} parse to {vals}", 'src': str(forms), 'env': None})
    # every decimal immediate of every opcode sample, respelled in hex and octal (also with values >= 8, where octal and
    # decimal differ): the instruction must be the one the decimal spelling gives
    stats['immediate_spellings'] = 0
    for l in pool:
        w = l.split()
        if not w or w[0] in ('int', 'pushint') or w[0].endswith(':') or w[0].startswith('#'): continue
        for k in range(1, len(w)):
            if not re.fullmatch(r'\d+', w[k]) or (len(w[k]) > 1 and w[k].startswith('0')): continue
            for n in dict.fromkeys([int(w[k]), 0, 1, 2, 8, 10, 15, 255]):
                dec = ' '.join(w[:k] + [str(n)] + w[k + 1:])
                try:
                    base, _, _ = quiet(parse_line, dec)
                except BaseException:
                    continue
                if base is None or type(base).__name__ == 'UnsupportedInstruction': continue
                want = (type(base).__name__, str(base))
                # the printed form of this immediate value parses back to an identical instruction (class and immediates)
                stats['roundtrips'] += 1
                try:
                    again, _, _ = quiet(parse_line, str(base))
                    ok = again is not None and fingerprint(again) == fingerprint(base)
                except BaseException:
                    ok = False
                if not ok:
                    cx.violations.append({'kind': 'roundtrip', 'program': dec, 'prop': 'C16', 'field': 'print', 'where': dec,
                                          'detail': f"{dec!r} prints as {str(base)!r}, which does not parse back to an identical instruction", 'src': dec, 'env': None})
                for form in (hex(n), ('0' + oct(n)[2:]) if n else '0'):
                    v = ' '.join(w[:k] + [form] + w[k + 1:])
                    stats['immediate_spellings'] += 1
                    try:
                        got, _, _ = quiet(parse_line, v)
                        g = (type(got).__name__, str(got)) if got is not None else None
                    except BaseException as e:
                        g = ('EXC', type(e).__name__)
                    if g != want:
                        cx.violations.append({'kind': 'int-literal', 'program': v, 'prop': 'C16', 'field': 'immediate', 'where': dec,
                                              'detail': f"{v!r} parses to {g}, the decimal spelling {dec!r} to {want}", 'src': v, 'env': None})
    # operand LISTS are positional: `switch a a b`, `match x y x`, `pushints 1 1 2`, `intcblock 7 7` keep every operand, repeated ones
    # included, in order - in the parsed instruction and in its printed form (own tokenisation of the source line: the words after
    # the opcode)
    stats['operand_lists'] = 0
    for _ in range(80 if cx.quick() else 1200):
        op = rng.choice(['switch', 'match', 'pushints', 'pushbytess', 'intcblock', 'bytecblock'])
        n = rng.randrange(1, 7)
        if op in ('switch', 'match'):
            pool_ = ['a', 'b', 'done', 'l1']; words = [rng.choice(pool_[:rng.randrange(1, 5)]) for _ in range(n)]; want = words
        elif op in ('pushints', 'intcblock'):
            vals = [rng.choice([0, 1, 7, 255]) for _ in range(n)]; words = [str(v) for v in vals]; want = vals
        else:
            words = [rng.choice(['0x01', '0x02', '0xff00']) for _ in range(n)]; want = words
        line = op + ' ' + ' '.join(words)
        stats['operand_lists'] += 1
        try:
            ins, _, _ = quiet(parse_line, line)
            got = next((v for k, v in vars(ins).items() if k in ('_labels', '_int_list', '_bytes_list', '_constants')), None)
            printed = str(ins).split()[1:]
            again, _, _ = quiet(parse_line, str(ins))
            ok = list(got) == list(want) and printed == words and fingerprint(again) == fingerprint(ins)
        except BaseException as e:  # noqa
            got, printed, ok = type(e).__name__, None, False
        if not ok:
            cx.violations.append({'kind': 'operand-list', 'program': line, 'prop': 'C16', 'field': 'immediates', 'where': op,
                                  'detail': f"{line!r}: operands {want} parse to {got}, printed as {printed}", 'src': line, 'env': None})
    # byte literals: hex / base64 / base32 / quoted forms of the same bytes
    import base64
    for _ in range(100 if cx.quick() else 1500):
        b = bytes(rng.randrange(0, 256) for _ in range(rng.randrange(1, 12)))
        hx = '0x' + b.hex()
        b64 = base64.b64encode(b).decode(); b32 = base64.b32encode(b).decode()
        forms = [f"byte {hx}", f"byte base64 {b64}", f"byte b64 {b64}", f"byte base64({b64})", f"byte b64({b64})",
                 f"byte base32 {b32}", f"byte b32 {b32}", f"byte base32({b32})", f"byte b32({b32})", f"pushbytes {hx}"]
        vals = []
        for f in forms:
            try:
                ins, _, _ = quiet(parse_line, f)
                vals.append(getattr(ins, 'value', None))
            except BaseException as e:
                vals.append('EXC ' + type(e).__name__)
        stats['byte_forms'] += 1
        if '//' in b64 and any(v != hx for v in vals):
            # known finding F20: `//` inside a base64 literal is taken for the start of a comment
            if all(v == hx for f, v in zip(forms, vals) if 'base64' not in f and 'b64' not in f):
                cx.known_seen['F20'] = f"a base64 byte literal containing `//` ({b64}) is cut as if a comment started there (ParseError)"
                continue
        if any(v != hx for v in vals):
            cx.violations.append({'kind': 'byte-literal', 'program': str(forms), 'prop': 'C16', 'field': 'byte', 'where': hx,
                                  'detail': f"forms of {hx} parse to {vals}", 'src': str(forms), 'env': None})
    # quoted byte literals with escapes: the assembler ends a literal at the first quote that does not directly follow a
    # backslash; everything in between (spaces, `//`, `;`, escaped quotes and backslashes) belongs to the literal
    pieces = ['a', 'b', 'C:', ' ', '//', ';', '\\\\', '\\"', '\\n', '\\x41', '\\\\\\"', 'q q']
    stats['quoted_literals'] = 0
    for _ in range(150 if cx.quick() else 2000):
        def lit():
            while True:
                body = ''.join(rng.choice(pieces) for _ in range(rng.randrange(1, 6)))
                if not body.endswith('\\'): return '"' + body + '"'
        l1, l2 = lit(), lit()
        tail = rng.choice(['', ' // c', ' // "c" d', '   //x', '\t// a \\" b'])
        cases = [(f'byte {l1}', 'Byte'), (f'pushbytes {l1}', 'PushBytes'), (f'pushbytess {l1} 0x02 {l2}', 'PushBytess'),
                 (f'bytecblock {l1} 0x01', 'Bytecblock'), (f'pushbytess 0x01 {l1}', 'PushBytess')]
        for text, cls in cases:
            stats['quoted_literals'] += 1
            for v in (text + tail, '  ' + text + tail):
                try:
                    ins, _, _ = quiet(parse_line, v)
                    got = (type(ins).__name__, str(ins))
                    back, _, _ = quiet(parse_line, str(ins))
                    rt = (type(back).__name__, str(back))
                except BaseException as e:
                    got = rt = ('EXC', type(e).__name__)
                if got != (cls, text) or rt != got:
                    cx.violations.append({'kind': 'quoted-literal', 'program': v, 'prop': 'C16', 'field': 'byte', 'where': text,
                                          'detail': f"{v!r} parses to {got} (printed form re-parses to {rt}); the assembler's tokens give {(cls, text)}", 'src': v, 'env': None})
    # recorded line numbers are the 1-based source lines, whatever blank / comment lines surround the instructions
    for k in range(40 if cx.quick() else 400):
        n = rng.randrange(3, 15)
        # the source may begin (and end) with blank, whitespace-only or comment lines
        src_lines = [rng.choice(["", "   ", "\t", "// head"]) for _ in range(rng.choice([0, 0, 1, 2, 3]))]
        src_lines.append("#pragma version 8"); expect = [len(src_lines)]
        for _ in range(n):
            c = rng.random()
            if c < 0.2: src_lines.append("")
            elif c < 0.4: src_lines.append("   // a comment line")
            else:
                src_lines.append(rng.choice(["int 1", "pop", "  txn Fee // c", "\tglobal GroupSize", "lab%d:" % len(src_lines)]))
                expect.append(len(src_lines))
        src_lines += ["int 1", "return"]; expect += [len(src_lines) - 1, len(src_lines)]
        src_lines += [""] * rng.choice([0, 0, 1, 2])
        try:
            t, _, _ = quiet(parse_teal, "\n".join(src_lines) + "\n")
            got = [i.line for i in t.instructions]
        except BaseException as e:
            got = 'EXC ' + type(e).__name__
        stats['programs'] += 1
        if got != expect:
            cx.violations.append({'kind': 'line-numbers', 'program': "\n".join(src_lines), 'prop': 'C16', 'field': 'line', 'where': 'lines',
                                  'detail': f"recorded lines {got}, source lines {expect}", 'src': "\n".join(src_lines), 'env': None})
    # whole generated programs (canonical spellings): every instruction prints as the words of its source line - an own tokenisation
    # of the source, independent of tealer's parser, so that operands dropped, merged or reordered by the parser show even when
    # the printed form is a fixpoint
    import gen as G
    stats['program_tokens'] = 0
    progs = [G.fragment(cx.seed, 5000 + i, max_stmts=4)[0] for i in range(12 if cx.quick() else 150)] + \
            [G.layout(cx.seed, i) for i in range(12 if cx.quick() else 150)] + [G.dense(cx.seed, i) for i in range(12 if cx.quick() else 150)] + \
            [G.edgeroles(cx.seed, i)[0] for i in range(0, G.N_EDGEROLES, 5 if cx.quick() else 1)]
    for src in progs:
        try:
            t, _, _ = quiet(parse_teal, src)
        except BaseException:
            continue
        lines_ = src.split("\n")
        for ins in t.instructions:
            words = lines_[ins.line - 1].split('//')[0].split() if 0 < ins.line <= len(lines_) else None
            stats['program_tokens'] += 1
            def canon(ws):
                # the assembler's integer spellings: 0x.. hexadecimal, a leading 0 octal, digits decimal
                out = []
                for w in ws or []:
                    if re.fullmatch(r'0[xX][0-9a-fA-F]+', w): out.append(int(w, 16))
                    elif re.fullmatch(r'0[0-7]+', w): out.append(int(w, 8))
                    elif re.fullmatch(r'\d+', w): out.append(int(w))
                    else: out.append(w)
                return out
            if words is None or canon(words) != canon(str(ins).split()):
                cx.violations.append({'kind': 'program-tokens', 'program': src, 'prop': 'C16', 'field': 'immediates', 'where': f"line {ins.line}",
                                      'detail': f"line {ins.line} is {lines_[ins.line - 1]!r}; the instruction recorded for it prints as {str(ins)!r}", 'src': src, 'env': None})
                break
    # unknown opcodes verbatim
    for w in ("frobnicate 1 2", "intc0", "txnx Fee"):
        ins, _, _ = quiet(parse_line, w)
        if type(ins).__name__ != 'UnsupportedInstruction' or w not in str(ins):
            cx.violations.append({'kind': 'unknown-opcode', 'program': w, 'prop': 'C16', 'field': 'unknown', 'where': w, 'detail': f"{w!r} -> {type(ins).__name__} {str(ins)!r}", 'src': w, 'env': None})
    f19 = quiet(parse_line, 'method "add(uint64)uint64"')[0]
    try:
        back = quiet(parse_line, str(f19))[0]
        bad = str(back) != str(f19)
    except BaseException:
        bad = True
    if bad:
        cx.known_seen['F19'] = f"`method \"sig\"` prints as {str(f19)!r} (quotes dropped), which does not parse back"
    cx.evaluations += stats['variants'] + stats['int_spellings'] + stats['byte_forms'] + stats['programs'] + stats['quoted_literals'] + stats['immediate_spellings'] + stats['operand_lists'] + stats['program_tokens']
    for l in pool[:3000]:
        cx.distinct.add(l.split()[0] if l.split() else l)
    cx.samples += [{'line': pool[3], 'variants': list(variants(pool[3]))}, {'int spellings of 255': ['255', '0xff', '0377']}]
    return {'programs': stats['programs'], 'disagreements_checked': 0, 'parse': stats,
            'rule': 'every opcode sample of the corpus + control opcodes + immediate families x whitespace/comment variants; int and byte literal spellings; programs with blank/comment lines; distinct = distinct opcodes'}


def c19(cx):
    from tealer.teal.parse_teal import parse_teal
    from tealer.teal.instructions.parse_instruction import parse_line
    from tealer.utils.teal_enums import ExecutionMode, ContractType
    rng = random.Random(f"c19/{cx.seed}")
    rows, _ = extract.op_rows()
    plain = [r for r in rows if r[0] != 'family' and r[2] not in ('UnsupportedInstruction', 'Label', 'Pragma') and not r[1].startswith(('b ', 'bz ', 'bnz ', 'callsub ', 'switch', 'match'))]
    stats = {'version_cases': 0, 'mode_cases': 0, 'cost_blocks': 0}
    sample = plain if not cx.quick() else rng.sample(plain, min(len(plain), 150))
    for (g, l, cls, txt, po, pu, ver, mode) in sample:
        for v in range(1, 9):
            src = (f"#pragma version {v}\n" if v > 1 or rng.random() < 0.5 else "") + l + "\nint 1\nreturn\n"
            try:
                t, out, err = quiet(parse_teal, src)
            except BaseException as e:
                continue
            ins = t.instructions[1 if src.startswith('#pragma') else 0]
            lineno = ins.line
            flagged_ins = re.search(rf"^{lineno}: .* instruction is not supported in Teal version {v}", err, flags=re.M) is not None
            stats['version_cases'] += 1
            if flagged_ins != (ver > v):
                cx.violations.append({'kind': 'version-flag', 'program': src, 'prop': 'C19', 'field': 'version', 'where': l,
                                      'detail': f"`{l}` (introduced in v{ver}) under declared version {v}: flagged={flagged_ins}, expected {ver > v}", 'src': src, 'env': None})
            if t.version != v:
                cx.violations.append({'kind': 'declared-version', 'program': src, 'prop': 'C19', 'field': 'version', 'where': l,
                                      'detail': f"declared version {v}, Teal.version {t.version}", 'src': src, 'env': None})
    # mode classification and contract type
    stateless = [r[1] for r in plain if r[7] == 0]
    stateful = [r[1] for r in plain if r[7] == 1]
    anym = [r[1] for r in plain if r[7] == 2 and r[4] == 0 and r[5] == 1][:40]
    for k in range(60 if cx.quick() else 600):
        body = [rng.choice(anym) for _ in range(rng.randrange(1, 5))]
        kind = rng.choice(['any', 'stateless', 'stateful', 'mixed'])
        # the classification looks at every instruction of the program, as the AVM's program check does: whatever the
        # declared version (a mode-specific opcode may be newer than it) and whether or not the instruction is reachable
        dead = [] if rng.random() < 0.7 else [rng.choice(anym)]
        def put(op):
            tgt = dead if dead and rng.random() < 0.6 else body
            tgt.insert(rng.randrange(0, len(tgt) + 1), op)
        if kind in ('stateless', 'mixed'): put(rng.choice(stateless))
        if kind in ('stateful', 'mixed'): put(rng.choice(stateful))
        v = rng.choice([None, 1, 2, 3, 4, 5, 6, 7, 8, 8, 8])
        src = (f"#pragma version {v}\n" if v else "") + "\n".join(body) + "\nint 1\nreturn\n"
        if dead: src += "\n".join(dead) + "\nint 1\nreturn\n"
        try:
            t, out, err = quiet(parse_teal, src)
        except BaseException:
            continue
        stats['mode_cases'] += 1
        mixed_flag = 'both Application and Signature Mode' in err
        want_mode = {'any': ExecutionMode.ANY, 'stateless': ExecutionMode.STATELESS, 'stateful': ExecutionMode.STATEFUL}.get(kind)
        if kind == 'mixed':
            if not mixed_flag:
                cx.violations.append({'kind': 'mixed-mode', 'program': src, 'prop': 'C19', 'field': 'mode', 'where': 'mixed', 'detail': "mixture of Signature-only and Application-only instructions not flagged", 'src': src, 'env': None})
        else:
            if t.mode != want_mode or mixed_flag:
                cx.violations.append({'kind': 'mode', 'program': src, 'prop': 'C19', 'field': 'mode', 'where': kind, 'detail': f"expected mode {want_mode}, got {t.mode}, mixed flag {mixed_flag}", 'src': src, 'env': None})
            want_type = ContractType.ApprovalProgram if kind == 'stateful' else ContractType.LogicSig
            if t.contract_type != want_type:
                cx.violations.append({'kind': 'contract-type', 'program': src, 'prop': 'C19', 'field': 'type', 'where': kind, 'detail': f"expected {want_type}, got {t.contract_type}", 'src': src, 'env': None})
    # block cost = sum of the table costs for the declared version
    prow = {r[0]: r[4] for r in extract.parse_rows() if r[4]}
    costed = [l for l in prow if l in set(r[1] for r in plain) and l.split()[0] not in ('return', 'err', 'retsub')]
    for k in range(60 if cx.quick() else 600):
        v = rng.randrange(1, 9)
        body = [rng.choice(costed) for _ in range(rng.randrange(2, 12))]
        src = f"#pragma version {v}\n" + "\n".join(body) + "\n"
        try:
            t, _, _ = quiet(parse_teal, src)
        except BaseException:
            continue
        stats['cost_blocks'] += 1
        want = sum(prow[l][v - 1] for l in body) + 1   # + the pragma pseudo instruction
        b0 = t.bbs[0]
        shown = [c for c in b0.tealer_comments if c.startswith('block_id')]
        if b0.cost != want or not shown or f"cost = {want}" not in shown[0]:
            cx.violations.append({'kind': 'block-cost', 'program': src, 'prop': 'C19', 'field': 'cost', 'where': 'B0', 'detail': f"block cost {b0.cost} (comment {shown}), sum of opcode costs for v{v} is {want}", 'src': src, 'env': None})
    # systematic: two instructions of the SAME opcode whose costs differ (the curve of the ecdsa family ...) in one block, in both
    # orders - the cost of a block is a sum over instructions, not over opcodes
    by_op = {}
    for l in prow:
        if l in set(r[1] for r in plain): by_op.setdefault(l.split()[0], []).append(l)
    stats['same_opcode_pairs'] = 0
    for opw, ls in sorted(by_op.items()):
        for a in ls:
            for b in ls:
                if a == b or prow[a] == prow[b]: continue
                for v in sorted({vv for vv in range(1, 9) if prow[a][vv - 1] != prow[b][vv - 1]})[-2:]:
                    src = f"#pragma version {v}\n{a}\n{b}\n{a}\n"
                    try:
                        t, _, _ = quiet(parse_teal, src)
                    except BaseException:
                        continue
                    stats['same_opcode_pairs'] += 1
                    want = 2 * prow[a][v - 1] + prow[b][v - 1] + 1
                    if t.bbs[0].cost != want:
                        cx.violations.append({'kind': 'block-cost', 'program': src, 'prop': 'C19', 'field': 'cost', 'where': 'B0',
                                              'detail': f"block cost {t.bbs[0].cost}; `{a}` costs {prow[a][v - 1]} and `{b}` costs {prow[b][v - 1]} under v{v}: the sum is {want}", 'src': src, 'env': None})
    # the same through a group configuration whose `version:` entry disagrees with the program's own declaration: the declared
    # `#pragma version` (1 when absent) decides, in Teal.version, in the cost of the contract's blocks and of the function's copies
    import tempfile, shutil, logging
    from tealer.utils.command_line.common import init_tealer_from_config
    from tealer.utils.command_line.group_config import (GroupConfig, GroupConfigContract, GroupConfigFunction, GroupConfigFunctionCall,
                                                        GroupConfigGroup, GroupConfigTransaction)
    stats['config_version_cases'] = 0
    wd = tempfile.mkdtemp(prefix='c19cfg_')
    try:
        for k in range(24 if cx.quick() else 240):
            v = rng.choice([None, 1, 2, 4, 5, 6, 7, 8])
            cfgv = rng.choice([x for x in range(1, 9) if x != (v or 1)])
            body = [rng.choice(costed) for _ in range(rng.randrange(2, 10))]
            src = (f"#pragma version {v}\n" if v else "") + "\n".join(body) + "\nint 1\nreturn\n"
            path = os.path.join(wd, f"c{k}.teal"); open(path, 'w').write(src)
            cfg = GroupConfig(name="c19", contracts=[GroupConfigContract(name="c", file_path=path, contract_type="LogicSig", version=cfgv, subroutines=[],
                                                                           functions=[GroupConfigFunction(name="main", dispatch_path=["B0"])])],
                              groups=[GroupConfigGroup(operation="op", transactions=[GroupConfigTransaction(txn_id="T", txn_type="pay",
                                                       logic_sig=GroupConfigFunctionCall(contract="c", function="main"))])])
            try:
                logging.disable(logging.CRITICAL)
                tealer, _, _ = quiet(init_tealer_from_config, cfg)
            except BaseException:
                continue
            finally:
                logging.disable(logging.NOTSET)
            stats['config_version_cases'] += 1
            teal = list(tealer.contracts.values())[0]
            dv = v or 1
            want = sum(prow[l][dv - 1] for l in body) + (1 if v else 0) + sum(prow.get(l, [1] * 8)[dv - 1] for l in ("int 1", "return"))
            fb = [b for b in list(teal.functions.values())[0].blocks if b.idx == 0]
            shown = [c for b in fb for c in b.tealer_comments if c.startswith('block_id')]
            got = (teal.version, teal.bbs[0].cost, [b.cost for b in fb])
            if teal.version != dv or teal.bbs[0].cost != want or any(b.cost != want for b in fb) or any(f"cost = {want}" not in c for c in shown):
                cx.violations.append({'kind': 'config-version', 'program': src, 'prop': 'C19', 'field': 'cost', 'where': f"group configuration says version {cfgv}",
                                      'detail': f"declared version {dv} (configuration: {cfgv}): Teal.version / block cost / function-copy costs are {got}, comments {shown}; "
                                                f"the declared version gives cost {want}", 'src': src, 'env': None})
    finally:
        shutil.rmtree(wd, ignore_errors=True)
    # failing-input search for the table obligation C19_costs: the sample whose cost under some declared version differs from
    # the specification table (Spec/CostTable.lean)
    spec_costs = {}
    for m in re.finditer(r'\("((?:[^"\\]|\\.)*)", "((?:[^"\\]|\\.)*)", (true|false), \[([\d, ]*)\]\)', open(os.path.join(HERE, '..', 'lean', 'TealerModel', 'Spec', 'CostTable.lean')).read()):
        spec_costs[m.group(1).replace('\\"', '"').replace('\\\\', '\\')] = [int(x) for x in m.group(4).split(',') if x.strip()]
    stats['cost_rows'] = 0
    for l, costs in prow.items():
        if l in spec_costs and spec_costs[l]:
            stats['cost_rows'] += 1
            for v, (got, want) in enumerate(zip(costs, spec_costs[l]), 1):
                if got != want:
                    cx.violations.append({'kind': 'opcode-cost', 'program': f"#pragma version {v}\n{l}\n", 'prop': 'C19', 'field': 'cost', 'where': l,
                                          'detail': f"`{l}` under `#pragma version {v}` is given cost {got}; the AVM cost (specification table) is {want}", 'src': f"#pragma version {v}\n{l}\n", 'env': None})
                    break
    sha3 = prow.get('sha3_256')
    if sha3 and sha3[-1] != 130:
        cx.known_seen['F18'] = f"sha3_256 cost is reported as {sha3[-1]} (AVM: 130)"
    cx.evaluations += sum(stats.values())
    for r in sample: cx.distinct.add(r[1].split()[0])
    cx.samples += [{'line': sample[0][1], 'introduced_in': sample[0][6], 'declared_versions_tried': list(range(1, 9))}]
    return {'programs': stats['mode_cases'] + stats['cost_blocks'] + stats['version_cases'], 'disagreements_checked': 0, 'parse': stats,
            'rule': 'opcode samples x declared versions 1..8 (stderr of the version check), random mode mixtures, random straight-line blocks for the cost comment; distinct = distinct opcodes'}
