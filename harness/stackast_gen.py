"""Generated/StackAst.lean: analyses/utils/stack_ast_builder.py `Stack.pop_n_values`, `Stack.push_n_values` and
`construct_stack_ast` translated from the Python AST of /repo.

The Stack object's only state is the list `self._values`; a method becomes a function that takes that list and returns it
(after the call) next to its result.  Python's negative slices are kept as they are (`PyView.sliceLast` / `sliceButLast`:
`l[-0:]` is the whole list and `l[:-0]` is empty - which is why the Python guards `count == 0`).  The dictionary
`ins_stack_value`, keyed by the (distinct) instruction objects in block order, is the list of its values in that order.
A stack value is `PySV.known pos op text args` (the output index `ins_out_values_index` is not part of the view: nothing outside
the class reads it).  Fail-closed: any statement or expression outside the handled forms is an error."""
import ast
import inspect
import textwrap

from pydo import Untranslatable


class SA:
    def __init__(self):
        self.env = {}

    def src(self, e):
        return ast.unparse(e)

    def expr(self, e):
        s = self.src(e)
        if isinstance(e, ast.Constant) and isinstance(e.value, int) and not isinstance(e.value, bool): return (str(e.value), 'nat')
        if isinstance(e, ast.Name) and e.id in self.env: return (e.id, self.env[e.id])
        if s == 'self._values': return ('self_values', 'svlist')
        if s == 'len(self._values)': return ('self_values.length', 'nat')
        if isinstance(e, ast.List) and not e.elts: return ('([] : List Tealer.PySV)', 'svlist')
        if isinstance(e, ast.Compare) and len(e.ops) == 1:
            (l, lt), (r, rt) = self.expr(e.left), self.expr(e.comparators[0])
            if lt == rt == 'nat':
                sym = {ast.Eq: '==', ast.GtE: '≥', ast.LtE: '≤', ast.Gt: '>', ast.Lt: '<', ast.NotEq: '!='}.get(type(e.ops[0]))
                if sym in ('==', '!='): return (f"({l} {sym} {r})", 'bool')
                if sym: return (f"(decide ({l} {sym} {r}))", 'bool')
            raise Untranslatable(s)
        if isinstance(e, ast.BinOp) and isinstance(e.op, ast.Sub):
            (l, lt), (r, rt) = self.expr(e.left), self.expr(e.right)
            if lt == rt == 'nat': return (f"({l} - {r})", 'nat')       # only used under `len(self._values) < count`
            raise Untranslatable(s)
        if isinstance(e, ast.BinOp) and isinstance(e.op, ast.Add):
            (l, lt), (r, rt) = self.expr(e.left), self.expr(e.right)
            if lt == rt == 'svlist': return (f"({l} ++ {r})", 'svlist')
            raise Untranslatable(s)
        if isinstance(e, ast.Subscript) and isinstance(e.slice, ast.Slice) and e.slice.step is None:
            c, t = self.expr(e.value)
            lo, hi = e.slice.lower, e.slice.upper
            neg = lambda x: isinstance(x, ast.UnaryOp) and isinstance(x.op, ast.USub)
            if t == 'svlist' and neg(lo) and hi is None:
                n, nt = self.expr(lo.operand)
                if nt == 'nat': return (f"(Tealer.PyView.sliceLast {c} {n})", 'svlist')
            if t == 'svlist' and lo is None and neg(hi):
                n, nt = self.expr(hi.operand)
                if nt == 'nat': return (f"(Tealer.PyView.sliceButLast {c} {n})", 'svlist')
            raise Untranslatable(s)
        if isinstance(e, ast.ListComp) and len(e.generators) == 1 and not e.generators[0].ifs and self.src(e.elt) == 'UnknownStackValue()':
            g = e.generators[0]
            if isinstance(g.iter, ast.Call) and self.src(g.iter.func) == 'range' and len(g.iter.args) == 1:
                n, nt = self.expr(g.iter.args[0])
                if nt == 'nat': return (f"(List.replicate {n} Tealer.PySV.unknown)", 'svlist')
            raise Untranslatable(s)
        if isinstance(e, ast.Attribute) and isinstance(e.value, ast.Name) and self.env.get(e.value.id) == 'ins':
            if e.attr == 'stack_pop_size': return (f"{e.value.id}.pops", 'nat')
            if e.attr == 'stack_push_size': return (f"{e.value.id}.pushes", 'nat')
        if isinstance(e, ast.Call) and self.src(e.func) == 'KnownStackValue' and not e.keywords and len(e.args) in (2, 3):
            (i, it), (a, at) = self.expr(e.args[0]), self.expr(e.args[1])
            if it != 'ins' or at != 'svlist': raise Untranslatable(s)
            if len(e.args) == 3 and self.expr(e.args[2])[1] != 'nat': raise Untranslatable(s)
            return (f"(Tealer.PySV.known {i}.pos {i}.op {i}.text {a})", 'sv')
        raise Untranslatable(s)

    def stmts(self, body, ind, method):
        out, pad = [], ' ' * ind
        for st in body:
            s = self.src(st)
            if isinstance(st, ast.Expr) and isinstance(st.value, ast.Constant): continue
            if isinstance(st, ast.Return) and method:
                c, t = self.expr(st.value)
                if t != 'svlist': raise Untranslatable(s)
                out.append(f"{pad}return ({c}, self_values)"); continue
            if isinstance(st, ast.Return) and not method:
                c, t = self.expr(st.value)
                out.append(f"{pad}return {c}"); continue
            if isinstance(st, ast.If) and not st.orelse:
                c, t = self.expr(st.test)
                if t != 'bool': raise Untranslatable(s)
                out.append(f"{pad}if {c} then")
                before = dict(self.env)
                out += self.stmts(st.body, ind + 2, method)
                if not isinstance(st.body[-1], ast.Return): raise Untranslatable("an `if` block that does not end in return: variables assigned in it would have to be hoisted")
                self.env = before        # names first bound inside the block are local to it (the block returns)
                continue
            if isinstance(st, (ast.Assign, ast.AnnAssign)):
                tgt = st.targets[0] if isinstance(st, ast.Assign) else st.target
                if isinstance(st, ast.Assign) and len(st.targets) != 1: raise Untranslatable(s)
                ts = self.src(tgt)
                if ts == 'self._values' and method:
                    c, t = self.expr(st.value)
                    if t != 'svlist': raise Untranslatable(s)
                    out.append(f"{pad}self_values := {c}"); continue
                if isinstance(tgt, ast.Name):
                    if isinstance(st.value, ast.Call) and self.src(st.value.func) == 'Stack' and not st.value.args:
                        self.env[tgt.id] = 'stack'
                        out.append(f"{pad}let mut {tgt.id}_values : List Tealer.PySV := []    -- Stack(): self._values = []"); continue
                    if isinstance(st.value, ast.Dict) and not st.value.keys:
                        self.env[tgt.id] = 'dict'
                        out.append(f"{pad}let mut {tgt.id} : List Tealer.PySV := []    -- the dictionary, as the list of its values in insertion order"); continue
                    if (isinstance(st.value, ast.Call) and isinstance(st.value.func, ast.Attribute) and st.value.func.attr == 'pop_n_values'
                            and isinstance(st.value.func.value, ast.Name) and self.env.get(st.value.func.value.id) == 'stack' and len(st.value.args) == 1):
                        n, nt = self.expr(st.value.args[0])
                        if nt != 'nat': raise Untranslatable(s)
                        sv = st.value.func.value.id + '_values'
                        out.append(f"{pad}let (t_{tgt.id}, t_values) := popNValues {sv} {n}")
                        out.append(f"{pad}let mut {tgt.id} := t_{tgt.id}")
                        out.append(f"{pad}{sv} := t_values")
                        self.env[tgt.id] = 'svlist'; continue
                    c, t = self.expr(st.value)
                    kw = '' if tgt.id in self.env else 'let mut '
                    if tgt.id in self.env and self.env[tgt.id] != t: raise Untranslatable(s)
                    self.env[tgt.id] = t
                    out.append(f"{pad}{kw}{tgt.id} := {c}"); continue
                if isinstance(tgt, ast.Subscript) and isinstance(tgt.value, ast.Name) and self.env.get(tgt.value.id) == 'dict':
                    k, kt = self.expr(tgt.slice)
                    if kt != 'ins' or k != self.loop_var: raise Untranslatable(s)     # keyed by the instruction of this iteration: a new key
                    c, t = self.expr(st.value)
                    if t != 'sv': raise Untranslatable(s)
                    out.append(f"{pad}{tgt.value.id} := {tgt.value.id} ++ [{c}]"); continue
                raise Untranslatable(s)
            if isinstance(st, ast.For) and isinstance(st.target, ast.Name) and not st.orelse:
                it = self.src(st.iter)
                if it == 'bb.instructions':
                    self.env[st.target.id] = 'ins'; self.loop_var = st.target.id
                    out.append(f"{pad}for {st.target.id} in instructions do")
                    out += self.stmts(st.body, ind + 2, method); continue
                if isinstance(st.iter, ast.Call) and self.src(st.iter.func) == 'range' and len(st.iter.args) == 1:
                    n, nt = self.expr(st.iter.args[0])
                    if nt != 'nat': raise Untranslatable(s)
                    self.env[st.target.id] = 'nat'
                    out.append(f"{pad}for {st.target.id} in List.range {n} do")
                    out += self.stmts(st.body, ind + 2, method); continue
                raise Untranslatable(s)
            if isinstance(st, ast.Expr) and isinstance(st.value, ast.Call) and isinstance(st.value.func, ast.Attribute) and len(st.value.args) == 1:
                f, recv = st.value.func, st.value.func.value
                if f.attr == 'append' and isinstance(recv, ast.Name) and self.env.get(recv.id) == 'svlist':
                    c, t = self.expr(st.value.args[0])
                    if t != 'sv': raise Untranslatable(s)
                    out.append(f"{pad}{recv.id} := {recv.id} ++ [{c}]"); continue
                if f.attr == 'extend' and self.src(recv) == 'self._values' and method:
                    c, t = self.expr(st.value.args[0])
                    if t != 'svlist': raise Untranslatable(s)
                    out.append(f"{pad}self_values := self_values ++ {c}"); continue
                if f.attr == 'push_n_values' and isinstance(recv, ast.Name) and self.env.get(recv.id) == 'stack':
                    c, t = self.expr(st.value.args[0])
                    if t != 'svlist': raise Untranslatable(s)
                    out.append(f"{pad}{recv.id}_values := pushNValues {recv.id}_values {c}"); continue
            raise Untranslatable(s[:120])
        return out


def fn_body(pyfn, want_args):
    tree = ast.parse(textwrap.dedent(inspect.getsource(inspect.unwrap(pyfn)))).body[0]
    names = [a.arg for a in tree.args.args]
    if names != want_args: raise Untranslatable(f"signature of {pyfn.__qualname__}: {names}")
    for d in tree.decorator_list:
        if ast.unparse(d) != 'lru_cache(maxsize=None)': raise Untranslatable(f"decorator {ast.unparse(d)}")
    return [st for st in tree.body if not (isinstance(st, ast.Expr) and isinstance(st.value, ast.Constant))]


def gen_stackast():
    from tealer.analyses.utils import stack_ast_builder as sab
    errors, out = [], ["/- REGENERATED on every run by harness/stackast_gen.py: Stack.pop_n_values, Stack.push_n_values and construct_stack_ast of",
                       "   analyses/utils/stack_ast_builder.py translated statement by statement from the Python AST of /repo. -/",
                       "import TealerModel.PyView", "set_option linter.unusedVariables false", "namespace Tealer.Generated", ""]
    def emit(name, f):
        try:
            out.extend(f())
        except Untranslatable as e:
            errors.append(f"{name}: {e}")
            out.extend([f"-- {name} could not be translated: {e}", ""])
    def pop():
        tr = SA(); tr.env = {'count': 'nat'}
        body = fn_body(sab.Stack.pop_n_values, ['self', 'count'])
        if not isinstance(body[-1], ast.Return): raise Untranslatable("function may fall off its end")
        return ["/-- translated from Stack.pop_n_values: (the returned list, self._values after the call) -/",
                "def popNValues (self_values : List Tealer.PySV) (count : Nat) : List Tealer.PySV × List Tealer.PySV := Id.run do",
                "  let mut self_values := self_values"] + tr.stmts(body, 2, True) + [""]
    def push():
        tr = SA(); tr.env = {'values': 'svlist'}
        body = fn_body(sab.Stack.push_n_values, ['self', 'values'])
        return ["/-- translated from Stack.push_n_values: self._values after the call -/",
                "def pushNValues (self_values : List Tealer.PySV) (values : List Tealer.PySV) : List Tealer.PySV := Id.run do",
                "  let mut self_values := self_values"] + tr.stmts(body, 2, True) + ["  return self_values", ""]
    def construct():
        tr = SA(); tr.env = {}
        body = fn_body(sab.construct_stack_ast, ['bb'])
        if not (isinstance(body[-1], ast.Return) and ast.unparse(body[-1].value) == 'ins_stack_value'): raise Untranslatable("expected `return ins_stack_value`")
        return ["/-- translated from construct_stack_ast: the values of the returned dictionary, in block order -/",
                "def constructStackAst (instructions : List Tealer.PyView.PyInsInfo) : List Tealer.PySV := Id.run do"] + tr.stmts(body, 2, False) + [""]
    emit('Stack.pop_n_values', pop); emit('Stack.push_n_values', push); emit('construct_stack_ast', construct)
    return "\n".join(out + ["end Tealer.Generated", ""]), errors


if __name__ == '__main__':
    import sys
    text, errs = gen_stackast()
    print(text)
    print(errs, file=sys.stderr)
