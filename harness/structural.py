"""Executable well-formedness predicates on a rendered contract graph (real tool's or model's), independent of how
the graph was built: used as the oracle of C04 / C05 and in the failing-input search."""
import os, sys
sys.path.insert(0, os.path.dirname(__file__))
import shapes as S


def parse_blocks(lines):
    blocks, subs, live = {}, {}, []
    for l in lines:
        w = l.split(' ')
        if w[0] == 'block':
            d = dict(f.partition('=')[::2] for f in w[2:])
            a, b = d['lines'].split('-')
            blocks[int(w[1])] = {'live': d['live'] == '1', 'sub': d['sub'], 'first': int(a), 'last': int(b), 'n': int(d['n']),
                                 'next': [int(x) for x in d['next'].split(',') if x], 'prev': [int(x) for x in d['prev'].split(',') if x],
                                 'exit': d.get('exit', '-')}
        elif w[0] == 'sub':
            d = dict(f.partition('=')[::2] for f in w[2:])
            subs[w[1]] = {k: [int(x) for x in v.split(',') if x] for k, v in d.items()}
        elif w[0] == 'live':
            live = [int(x) for x in w[1].split(',') if x] if len(w) > 1 else []
    return blocks, subs, live


def cfg_violations(lines, toks):
    """C04 structural clauses on the contract-level graph"""
    viol = {}
    blocks, subs, live = parse_blocks(lines)
    if not blocks:
        return viol
    ops = [S.split_tok(t) for t in toks]
    line_of = [o[0] for o in ops]
    label_line = {}
    for ln, op, args in ops:
        if op == 'label': label_line[args[0]] = ln
    callsub_targets = set(args[0] for _, op, args in ops if op == 'callsub')
    block_at = {}
    for i, b in blocks.items():
        for ln in line_of:
            if b['first'] <= ln <= b['last']: block_at[ln] = i
    liveset = set(live)
    # partition: blocks are contiguous runs of instructions, disjoint, in source order, non-empty
    prev_last = 0
    for i in sorted(blocks):
        b = blocks[i]
        cnt = sum(1 for ln in line_of if b['first'] <= ln <= b['last'])
        if b['n'] == 0 or cnt != b['n']:
            viol[('C04', 'partition', f"B{i}", 0)] = f"block {i} lines {b['first']}-{b['last']} holds {b['n']} instructions but {cnt} instructions lie in that range"
        if b['first'] <= prev_last:
            viol[('C04', 'partition', f"B{i}", 0)] = f"block {i} overlaps the previous block"
        prev_last = b['last']
    if sum(b['n'] for b in blocks.values()) != len(ops):
        viol[('C04', 'partition', 'total', 0)] = f"blocks hold {sum(b['n'] for b in blocks.values())} instructions, the program has {len(ops)}"
    # single entry / single exit: labels only at block starts; branching instructions only at block ends
    for ln, op, args in ops:
        i = block_at.get(ln)
        if i is None: continue
        b = blocks[i]
        if op == 'label' and ln != b['first'] and any(o[0] == 'label' and False for o in ops):
            pass
        if op in ('b', 'bz', 'bnz', 'switch', 'match', 'callsub', 'retsub', 'err', 'ret') and ln != b['last']:
            # bz/bnz/switch/match with a single distinct successor need not end a block only if they are the last instruction
            viol[('C04', 'single-exit', f"B{i}", 0)] = f"control instruction at line {ln} is not the last instruction of block {i}"
    for lab, ln in label_line.items():
        i = block_at.get(ln)
        if i is not None and blocks[i]['first'] != ln:
            # a label in the middle of a block is allowed only if every instruction before it in the block is a label
            # (back-to-back labels share a block)
            between = [o for o in ops if blocks[i]['first'] <= o[0] < ln]
            if any(o[1] != 'label' for o in between):
                viol[('C04', 'single-entry', f"B{i}", 0)] = f"label {lab} (line {ln}) is in the middle of block {i}"
    # retained = reachable from the entry or from a callsub target (over next edges)
    reach = set()
    roots = [0] + [block_at[label_line[l]] for l in callsub_targets if l in label_line and label_line[l] in block_at]
    stack = list(roots)
    # reachability must use the edges before pruning: approximate with the instruction-level successor relation
    succ = {}
    for k, (ln, op, args) in enumerate(ops):
        i = block_at.get(ln)
        if i is None or ln != blocks[i]['last']: continue
        tg = []
        if op not in ('b', 'err', 'ret', 'retsub') and k + 1 < len(ops):
            tg.append(block_at[ops[k + 1][0]])
        if op in ('b', 'bz', 'bnz'): tg.append(block_at[label_line[args[0]]])
        if op in ('switch', 'match'): tg += [block_at[label_line[a]] for a in args]
        succ[i] = tg
    while stack:
        x = stack.pop()
        if x in reach: continue
        reach.add(x)
        stack += succ.get(x, [])
    if reach != liveset:
        viol[('C04', 'retained', 'set', 0)] = f"retained blocks {sorted(liveset)} but reachable from entry / callsub targets are {sorted(reach)}"
    # edges of retained blocks = instruction-level control flow; order: fall-through first, then jump targets
    for i in sorted(liveset):
        b = blocks[i]
        want = []
        for t in succ.get(i, []):
            if t not in want: want.append(t)
        if b['next'] != want:
            viol[('C04', 'edges', f"B{i}", 0)] = f"block {i} ({b['exit']}) has successors {b['next']}, control flow gives {want} (fall-through first, then jump targets)"
        for n in b['next']:
            if n not in liveset:
                viol[('C04', 'closed', f"B{i}", 0)] = f"block {i} names successor {n} outside the graph"
            elif i not in blocks[n]['prev']:
                viol[('C04', 'mirror', f"B{i}->B{n}", 0)] = f"{n} is a successor of {i} but {i} is not a predecessor of {n}"
        for p in b['prev']:
            if p not in liveset:
                viol[('C04', 'closed-prev', f"B{i}", 0)] = f"block {i} names predecessor {p} outside the graph"
            elif i not in blocks[p]['next']:
                viol[('C04', 'mirror', f"B{p}->B{i}", 0)] = f"{p} is a predecessor of {i} but {i} is not a successor of {p}"
    return viol


def sub_violations(lines, toks):
    """C05: subroutines = callsub targets; blocks = intraprocedural closure; exits; caller / return-point tables"""
    viol = {}
    blocks, subs, live = parse_blocks(lines)
    if not blocks:
        return viol
    ops = [S.split_tok(t) for t in toks]
    label_line = {args[0]: ln for ln, op, args in ops if op == 'label'}
    targets = []
    for ln, op, args in ops:
        if op == 'callsub' and args[0] not in targets: targets.append(args[0])
    names = [n for n in subs if n != '__main__']
    if sorted(names) != sorted(targets):
        viol[('C05', 'subs', 'names', 0)] = f"subroutines {sorted(names)} but callsub targets are {sorted(targets)}"
    first_block = {b['first']: i for i, b in blocks.items()}
    block_of_line = {}
    for i, b in blocks.items():
        for ln, _, _ in ops:
            if b['first'] <= ln <= b['last']: block_of_line[ln] = i
    liveset = set(live)
    for name, s in subs.items():
        entry = s['entry'][0] if s.get('entry') else None
        if name != '__main__':
            want_entry = block_of_line.get(label_line.get(name))
            if entry != want_entry:
                viol[('C05', 'entry', name, 0)] = f"subroutine {name} entry block {entry}, its label is in block {want_entry}"
        clo, stack = set(), [entry]
        while stack:
            x = stack.pop()
            if x in clo or x is None: continue
            clo.add(x); stack += blocks[x]['next'] if x in blocks else []
        if set(s['blocks']) != clo:
            viol[('C05', 'blocks', name, 0)] = f"subroutine {name} blocks {sorted(s['blocks'])}, closure from its entry is {sorted(clo)}"
        want_exits = sorted(x for x in clo if x in blocks and (not blocks[x]['next'] or blocks[x]['exit'] == 'retsub'))
        if sorted(s.get('exits', [])) != want_exits:
            viol[('C05', 'exits', name, 0)] = f"subroutine {name} exits {sorted(s.get('exits', []))}, expected {want_exits}"
        if name != '__main__':
            want_callers = sorted(i for i in liveset if blocks[i]['exit'] == 'callsub:' + name)
            if sorted(s.get('callers', [])) != want_callers:
                viol[('C05', 'callers', name, 0)] = f"subroutine {name} callers {sorted(s.get('callers', []))}, retained call sites are {want_callers}"
            want_rp = sorted(blocks[i]['next'][0] for i in want_callers if len(blocks[i]['next']) == 1)
            if sorted(s.get('retpoints', [])) != want_rp:
                viol[('C05', 'retpoints', name, 0)] = f"subroutine {name} return points {sorted(s.get('retpoints', []))}, expected {want_rp}"
    # every callsub block resumes at its fall-through block (none if the call is the last instruction)
    for i in liveset:
        b = blocks[i]
        if b['exit'].startswith('callsub:'):
            ft = first_block.get(b['last'] + 1)
            # the next instruction line may not be last+1 when blank/comment lines intervene: use instruction order
            lines_sorted = sorted(ln for ln, _, _ in ops)
            k = lines_sorted.index(b['last'])
            ft = block_of_line.get(lines_sorted[k + 1]) if k + 1 < len(lines_sorted) else None
            want = [ft] if ft is not None else []
            if b['next'] != want:
                viol[('C05', 'callsite', f"B{i}", 0)] = f"callsub block {i} resumes at {b['next']}, the block after the call is {want}"
    return viol
