"""Per-property check procedures.  REGISTRY[pid](cx, replay=None) -> extra coverage dict."""
import collections, json, os, random, sys
HERE = os.path.dirname(os.path.abspath(__file__))
ROOT = os.path.abspath(os.path.join(HERE, '..'))
sys.path.insert(0, HERE)

import gen, engine, corpus

REGISTRY = {}

# which oracle verdicts each property owns, and which part of the rendered state its theorems consume
SEM = {
    'C01': dict(viol={'C01'}, phases={'ctx', 'paths', 'err'}, ctx_fields=None, ctx_kinds=None),
    'C06': dict(viol={'C06'}, phases={'ctx', 'err'}, ctx_fields={'sizes', 'indices'}, ctx_kinds={'self'}, exact=True),
    'C07': dict(viol={'C07'}, phases={'ctx', 'err'}, ctx_fields={'types'}, ctx_kinds={'self'}),
    'C08': dict(viol={'C08'}, phases={'ctx', 'err'}, ctx_fields={'rekey', 'close', 'aclose', 'sender'}, ctx_kinds={'self'}),
    'C09': dict(viol={'C09'}, phases={'ctx', 'err'}, ctx_fields={'fee'}, ctx_kinds={'self'}, exact=True),
    'C10': dict(viol={'C10'}, phases={'ctx', 'err'}, ctx_fields=None, ctx_kinds={'at', 'abs', 'rel'}),
    'C11': dict(viol={'C11'}, phases={'ast', 'err'}, ctx_fields=None, ctx_kinds=None),
    'C03': dict(viol={'C03'}, phases={'ctx', 'paths', 'err'}, ctx_fields=None, ctx_kinds={'self'}, exact=True),
    'C02': dict(viol={'C02'}, phases={'paths', 'err'}, ctx_fields=None, ctx_kinds=None),
    'C04': dict(viol={'C04'}, phases={'cfg', 'func', 'err'}, ctx_fields=None, ctx_kinds=None),
    'C05': dict(viol={'C05'}, phases={'subs', 'func', 'err'}, ctx_fields=None, ctx_kinds=None),
}

# which fields of a violation a finding may explain
def finding_explains(f, prop, field, shapes, pid):
    if f.get('status') != 'known': return False
    if pid not in f.get('properties', []): return False
    if f.get('shape') not in shapes: return False
    fl = f.get('fields')
    if fl and field not in fl and field.split(':')[-1] not in fl: return False
    return True


def volumes(cx, base_prog, base_env):
    k = 1 if cx.quick() else int(os.environ.get('VERIF_THOROUGH_K', '30'))   # thorough: 30x the quick program volume (override for soaks)
    return base_prog * k, base_env * (1 if cx.quick() else 2)


def make_items(cx, spec, nprog, nenv, streams=('corpus', 'fragment', 'shapes')):
    items = []
    if 'corpus' in streams:
        srcs = corpus.repo_sources()
        if cx.quick():
            # a seed-dependent half of the corpus in the quick tier, everything in the thorough tier
            rng = random.Random(f"corpus/{cx.seed}")
            srcs = [s for s in srcs if len(s[1]) < 6000]
            rng.shuffle(srcs); srcs = srcs[:60]
        for name, src in srcs:
            items.append({'name': 'corpus:' + name, 'src': src, 'nenv': nenv // 2, 'seed': cx.seed, 'stream': 'corpus'})
    wdir = os.path.join(ROOT, 'corpus')
    if os.path.isdir(wdir):
        for fn in sorted(os.listdir(wdir)):
            if fn.endswith('.teal'):
                items.append({'name': 'saved:' + fn, 'src': open(os.path.join(wdir, fn)).read(), 'nenv': nenv, 'seed': cx.seed, 'stream': 'saved'})
    if 'fragment' in streams:
        for i in range(nprog):
            src, tags = gen.fragment(cx.seed, i)
            items.append({'name': f'fragment/{cx.seed}/{i}', 'src': src, 'nenv': nenv, 'seed': cx.seed, 'stream': 'fragment'})
    if 'shapes' in streams:
        for i in range(nprog // 2):
            src, tags = gen.fragment(cx.seed, i, shapes=True)
            items.append({'name': f'shapes/{cx.seed}/{i}', 'src': src, 'nenv': nenv, 'seed': cx.seed, 'stream': 'shapes', 'tags': tags})
    if 'direct' in streams:
        nd = gen.N_DIRECT if not cx.quick() else 160
        rng = random.Random(f"direct/{cx.seed}")
        idxs = list(range(gen.N_DIRECT)); rng.shuffle(idxs)
        for i in idxs[:nd]:
            src, tags = gen.direct(cx.seed, i)
            items.append({'name': f'direct/{cx.seed}/{i}', 'src': src, 'nenv': max(40, nenv // 2), 'seed': cx.seed, 'stream': 'direct',
                          'exact': spec.get('exact', False)})
    if 'callfam' in streams:
        for i in range(gen.N_CALLFAM):
            src, tags = gen.callfam(cx.seed, i)
            items.append({'name': f'callfam/{cx.seed}/{i}', 'src': src, 'nenv': max(30, nenv // 3), 'seed': cx.seed, 'stream': 'callfam'})
    if 'straight' in streams:
        for i in range(nprog * 3):
            items.append({'name': f'straight/{cx.seed}/{i}', 'src': gen.straightline(cx.seed, i), 'nenv': 0, 'seed': cx.seed, 'stream': 'straight'})
    if 'twofield' in streams:
        rng = random.Random(f"twofield/{cx.seed}")
        idxs = list(range(gen.N_TWOFIELD)); rng.shuffle(idxs)
        if cx.quick():
            # stratified: every (kind check, spelling, asserted / branched) combination once, with a random address check
            nk, na = len(gen.TWOFIELD_KINDS), len(gen.TWOFIELD_ADDR)
            idxs = []
            for k in range(nk):
                for neg in (0, 1):
                    for sp in (0, 1, 2):
                        a = rng.randrange(na)
                        idxs.append(k + nk * a + nk * na * neg + nk * na * 2 * sp)
                        if gen.TWOFIELD_KINDS[k] is not None and gen.TWOFIELD_KINDS[k][0] == 'OnCompletion':
                            a2 = (a + 1) % na                      # the other parity: with / without the kind prelude
                            idxs.append(k + nk * a2 + nk * na * neg + nk * na * 2 * sp)
        for i in idxs:
            src, tags = gen.twofield(cx.seed, i)
            items.append({'name': f'twofield/{cx.seed}/{i}', 'src': src, 'nenv': nenv, 'seed': cx.seed, 'stream': 'twofield', 'tags': tags,
                          'exact': 'twofield' if spec.get('exact', False) else False})
    if 'addrfam' in streams:
        for i in range(gen.N_ADDRFAM):
            items.append({'name': f'addrfam/{cx.seed}/{i}', 'src': gen.addrfam(cx.seed, i), 'nenv': nenv, 'seed': cx.seed, 'stream': 'addrfam'})
    if 'branchcall' in streams:
        rng = random.Random(f"branchcall/{cx.seed}")
        idxs = list(range(gen.N_BRANCHCALL)); rng.shuffle(idxs)
        for i in (idxs[:72] if cx.quick() else idxs):
            src, tags = gen.branchcall(cx.seed, i)
            items.append({'name': f'branchcall/{cx.seed}/{i}', 'src': src, 'nenv': max(30, nenv // 3), 'seed': cx.seed, 'stream': 'branchcall', 'tags': tags})
    if 'edgeroles' in streams:
        for i in range(gen.N_EDGEROLES):
            src, tags = gen.edgeroles(cx.seed, i)
            items.append({'name': f'edgeroles/{cx.seed}/{i}', 'src': src, 'nenv': max(30, nenv // 3), 'seed': cx.seed, 'stream': 'edgeroles', 'tags': tags,
                          # the exhaustive region enumeration (oracle.exact_envs) varies size, index and fee only
                          'exact': (spec.get('exact', False) if not tags and not any(f in src for f in ('RekeyTo', 'CloseRemainderTo', 'OnCompletion', 'Sender')) else False)})
    if 'twosite' in streams:
        for i in range(gen.N_TWOSITE):
            items.append({'name': f'twosite/{cx.seed}/{i}', 'src': gen.twosite(cx.seed, i), 'nenv': max(30, nenv // 3), 'seed': cx.seed, 'stream': 'twosite',
                          'exact': spec.get('exact', False)})
    if 'lookalike' in streams:
        rng = random.Random(f"lookalike/{cx.seed}")
        idxs = list(range(gen.N_LOOKALIKE)); rng.shuffle(idxs)
        for i in (idxs[:48] if cx.quick() else idxs):
            items.append({'name': f'lookalike/{cx.seed}/{i}', 'src': gen.lookalike(cx.seed, i), 'nenv': max(30, nenv // 3), 'seed': cx.seed, 'stream': 'lookalike'})
    if 'layout' in streams:
        # fixed layouts: a multi-way branch as the LAST instruction (no fall-through: every successor is a jump target), with distinct
        # and with repeated targets, in the main code and in a subroutine; a two-way branch last whose target is the first instruction
        for k, src in enumerate([
                "#pragma version 8\nb main\na:\nint 1\nreturn\nb:\nint 2\nreturn\nmain:\nload 0\nswitch a b\n",
                "#pragma version 8\nb main\na:\nint 1\nreturn\nb:\nint 2\nreturn\nc:\nerr\nmain:\nload 0\nswitch a b c a\n",
                "#pragma version 8\nb main\na:\nint 1\nreturn\nb:\nint 2\nreturn\nmain:\nint 7\nint 8\nload 0\nmatch a b\n",
                "#pragma version 8\ncallsub f\nint 1\nreturn\nx:\nretsub\ny:\nint 3\npop\nretsub\nf:\nload 1\nswitch x y x\n",
                "#pragma version 8\ntop:\nload 0\nint 1\n+\nstore 0\nload 0\nint 3\n<\nbnz top\n",
                "#pragma version 8\nb main\na:\nint 1\nreturn\nmain:\nload 0\nswitch a\n"]):
            items.append({'name': f'fixedlayout/{k}', 'src': src, 'nenv': nenv // 3, 'seed': cx.seed, 'stream': 'layout'})
        for i in range(nprog):
            items.append({'name': f'layout/{cx.seed}/{i}', 'src': gen.layout(cx.seed, i), 'nenv': nenv // 3, 'seed': cx.seed, 'stream': 'layout'})
            items.append({'name': f'dense/{cx.seed}/{i}', 'src': gen.dense(cx.seed, i), 'nenv': nenv // 3, 'seed': cx.seed, 'stream': 'layout'})
            items.append({'name': f'deadcode/{cx.seed}/{i}', 'src': gen.deadcode(cx.seed, i), 'nenv': nenv // 3, 'seed': cx.seed, 'stream': 'layout'})
    for it in items:
        it['ctx_fields'] = sorted(spec['ctx_fields']) if spec.get('ctx_fields') else None
        it['ctx_kinds'] = sorted(spec['ctx_kinds']) if spec.get('ctx_kinds') else None
    return items


def replay_findings(cx, pid):
    """replay the witnesses of the listed findings of this property on the real code: a known finding that still fails
    is printed as KNOWN-FINDING; a fixed finding's witness must pass (a regression is an ordinary violation)"""
    own = SEM.get(pid, {'viol': {pid}})['viol']
    for f in cx.findings:
        if pid not in f.get('properties', []) or not f.get('witness'):
            continue
        wp = os.path.join(ROOT, f['witness'])
        if not os.path.exists(wp):
            continue
        w = json.load(open(wp))
        if w.get('kind', 'oracle') != 'oracle':
            continue
        item = {'name': 'finding:' + f['id'], 'src': w['src'], 'envs': w['envs'], 'seed': 0, 'nenv': 0}
        r = engine.process(item)
        hit = [v for v in r.get('viol_impl', []) if v['prop'] in own]
        if not hit:
            continue
        if f.get('status') == 'known':
            cx.known_seen[f['id']] = f"{f['what']} [witness {f['witness']}: {hit[0]['detail'][:120]}]"
        else:
            for v in hit[:3]:
                cx.violations.append({'kind': 'regression of fixed finding ' + f['id'], 'program': f['witness'], 'prop': v['prop'], 'field': v['field'],
                                      'where': v['where'], 'detail': v['detail'], 'src': w['src'], 'env': w['envs'][0]})


def classify(cx, pid, spec, results):
    """sort oracle violations into known / new; collect correspondence breaks of the phases this property consumes"""
    stats = collections.Counter()
    diffs = []
    for r in results:
        cx.evaluations += 1
        stats['programs'] += 1
        stats['status_' + r['status']] += 1
        if r.get('premises'):
            # the decidable graph premises of the solver theorems, evaluated by the model on this program
            stats['solver_premises_checked'] += 1
            stats['solver_premises_fwdWF'] += int('fwdWF=1' in r['premises'])
            stats['solver_premises_bwdWF'] += int('bwdWF=1' in r['premises'])
            stats['search_premise_nodupNext'] += int('nodupNext=1' in r['premises'])
        for k, v in r.get('stats', {}).items():
            stats[k] += v
        if r['status'] in ('harness-error', 'model-semprog-error'):
            raise RuntimeError(f"harness failure on {r['name']}: {r.get('detail')}")
        if r['status'] in ('impl-parse-error', 'impl-timeout'):
            continue
        if r.get('stats', {}).get('accept', 0) > 0 or not r.get('stats'):
            cx.distinct.add(r['name'])
        rel = {ph: d for ph, d in r.get('diff', {}).items() if ph in spec['phases']}
        if rel:
            diffs.append((r, rel))
        shapes = set(r.get('shapes', []))
        for v in r.get('viol_impl', []):
            if v['prop'] not in spec['viol']:
                continue
            stats['oracle_violations'] += 1
            fid = None
            if v.get('in_other'):
                for f in cx.findings:
                    if finding_explains(f, v['prop'], v['field'], shapes, pid):
                        fid = f['id']; break
            if fid:
                stats['attributed_' + fid] += 1
                if fid not in cx.known_seen:
                    what = next((f['what'] for f in cx.findings if f['id'] == fid), '')
                    cx.known_seen[fid] = f"{what} [seen on {r['name']}: {v['detail'][:100]}]"
                continue
            cx.violations.append({'kind': 'oracle', 'program': r['name'], 'prop': v['prop'], 'field': v['field'], 'where': v['where'],
                                  'detail': v['detail'], 'model_exhibits_it': v.get('in_other'), 'shapes': sorted(shapes),
                                  'src': r.get('src'), 'env': r.get('envs', {}).get(v['env']) or r.get('envs', {}).get(str(v['env']))})
    return stats, diffs


def c08_converse(cx):
    """C08, second sentence: a field compared with global ZeroAddress / a literal address on every accepting path through a block is
    not reported as 'any address' there.  Family: one subroutine called from two sites, the comparison asserted right after the
    FIRST call returns (nothing after the second): the call site of the first call and its return point lie only on accepting paths
    that make the comparison - the blocks of the second site do not (they must say 'any address': soundness)."""
    import impl, re as _re
    n = 0
    fields = {'RekeyTo': 'rekey', 'CloseRemainderTo': 'close', 'AssetCloseTo': 'aclose', 'Sender': 'sender'}
    for f, tag in fields.items():
        for const in ('global ZeroAddress', f'addr {gen.LITERALS[0]}'):
            for swap in (False, True):
                for callee in (0, 1):
                    cmpx = [const, f'txn {f}', '=='] if swap else [f'txn {f}', const, '==']
                    L = ['#pragma version 8', 'txn NumAppArgs', 'bnz second', 'callsub f'] + cmpx + ['assert', 'int 1', 'return', 'second:', 'callsub f',
                         'int 1', 'return', 'f:'] + (['int 3', 'pop'] if callee else []) + ['retsub']
                    src = '\n'.join(L) + '\n'
                    toks, lines = impl.analyse_source(src, want=('ctx',))
                    n += 1
                    anyof = {}
                    for l in lines:
                        m = _re.match(r'ctx (\d+) self 0 .*\b' + tag + r'=(A?)\[', l)
                        if m: anyof[int(m.group(1))] = (m.group(2) == 'A')
                    # blocks: 0 entry, 1 first call site, 2 its return point (the comparison), 3 second call site, 4 its return point, 5 callee
                    for b, want_any in ((1, False), (2, False), (3, True), (4, True)):
                        if b in anyof and anyof[b] != want_any:
                            cx.violations.append({'kind': 'converse', 'program': f'twosite-addr/{f}/{const}/{swap}/{callee}', 'prop': 'C08', 'field': tag, 'where': f'block {b}',
                                                  'detail': (f"block {b} lies only on accepting paths that compare {f} with {const}, yet it is reported as 'any address'" if not want_any else
                                                             f"block {b} lies on an accepting path that never compares {f}, yet 'any address' is not reported there"),
                                                  'src': src, 'env': None})
                    if not anyof:
                        cx.broken.append(f"C08 converse stage: no context lines for {f}"); return n
    cx.evaluations += n
    return n


def semantic_check(pid):
    def run(cx, replay=None):
        spec = SEM[pid]
        if replay is not None:
            return do_replay(cx, pid, spec, replay)
        nprog, nenv = volumes(cx, 90, 100)
        streams = ('corpus', 'fragment', 'shapes', 'direct', 'callfam') + (('branchcall', 'lookalike', 'edgeroles', 'twosite') if pid in ('C01', 'C03', 'C06', 'C07', 'C08', 'C09', 'C10') else ()) + (('twofield',) if pid in ('C01', 'C03', 'C07', 'C08') else ()) + (('layout',) if pid in ('C04', 'C05') else ()) + (('addrfam',) if pid in ('C01', 'C08') else ()) + (('straight',) if pid == 'C11' else ())
        items = make_items(cx, spec, nprog, nenv, streams)
        results = engine.run_items(items)
        src_of = {it['name']: it['src'] for it in items}
        for r in results:
            r['src'] = src_of.get(r['name'])
        stats, diffs = classify(cx, pid, spec, results)
        if pid == 'C05':
            import clichecks
            stats['call_graph_exports'] = clichecks.callgraph_export(cx)
        if pid == 'C08':
            stats['converse_cases'] = c08_converse(cx)
        if pid == 'C11':
            # failing-input search for the table obligations: the opcode sample whose declared effect deviates
            import extract, re as _re
            rows, _errs = extract.op_rows()
            spec_rows = {}
            for m in _re.finditer(r'\("((?:[^"\\]|\\.)*)", "([^"]*)", "((?:[^"\\]|\\.)*)", (\d+), (\d+), (\d+), (\d+)\)', open(os.path.join(ROOT, 'lean', 'TealerModel', 'Spec', 'OpTable.lean')).read()):
                spec_rows[m.group(1).replace('\\"', '"').replace('\\\\', '\\')] = (m.group(2), int(m.group(4)), int(m.group(5)), int(m.group(6)), int(m.group(7)))
            def fam_spec(op, a):
                n = max(a, 0)
                return {'dig': (n + 1, n + 2), 'cover': (n + 1, n + 1), 'uncover': (n + 1, n + 1), 'bury': (n + 1, n), 'popn': (n, 0), 'dupn': (1, n + 1),
                        'frame_dig': (0, 1), 'frame_bury': (1, 0), 'pushints': (0, n), 'pushbytess': (0, n), 'switch': (1, 0), 'match': (n + 1, 0), 'proto': (0, 0)}.get(op)
            _lines, _fam, _ctl = extract.sample_lines()
            base_of_variant = {v: (_lines + _ctl)[i] for v, i in extract.immediate_variants(_lines + _ctl)}
            for (g, l, cls, txt, po, pu, ver, mode) in rows:
                if g == 'family':
                    w = l.split(); op = w[0]
                    a = len(w) - 1 if op in ('pushints', 'pushbytess', 'switch', 'match') else int(w[1])
                    if op == 'frame_bury' or (op in ('switch', 'match') and a == 0):
                        # known deviations F13 / F14: reported while they persist
                        if fam_spec(op, a) != (po, pu):
                            fid = 'F13' if op == 'frame_bury' else 'F14'
                            what = next((f['what'] for f in cx.findings if f['id'] == fid), '')
                            cx.known_seen[fid] = f"{what} [`{l}` declared pop {po} / push {pu}]"
                        continue
                    if fam_spec(op, a) != (po, pu):
                        cx.violations.append({'kind': 'stack-effect', 'program': l, 'prop': 'C11', 'field': 'effect', 'where': l,
                                              'detail': f"`{l}` is declared pop {po} / push {pu}; the AVM effect is pop {fam_spec(op, a)[0]} / push {fam_spec(op, a)[1]}", 'src': l, 'env': None})
                elif g == 'variant':
                    base = base_of_variant.get(l)
                    if base in spec_rows and spec_rows[base] != (cls, po, pu, ver, mode):
                        cx.violations.append({'kind': 'stack-effect', 'program': l, 'prop': 'C11', 'field': 'effect', 'where': l,
                                              'detail': f"`{l}` parses to class/pops/pushes/version/mode {(cls, po, pu, ver, mode)}, but `{base}` - the same opcode with another immediate value - has {spec_rows[base]} in the specification table (the effect of this opcode does not depend on the value of its immediate)", 'src': l, 'env': None})
                elif l in spec_rows and spec_rows[l] != (cls, po, pu, ver, mode):
                    cx.violations.append({'kind': 'stack-effect', 'program': l, 'prop': 'C11', 'field': 'effect', 'where': l,
                                          'detail': f"`{l}` parses to class/pops/pushes/version/mode {(cls, po, pu, ver, mode)}; the specification table has {spec_rows[l]}", 'src': l, 'env': None})
            cx.evaluations += len(rows)
            # the model's operand reconstruction is, by theorem C11_sim_step, the instrumented concrete stack of the
            # block: an instruction whose reconstructed operands differ from it IS a failing input of C11
            for r, rel in diffs:
                if 'ast' in rel:
                    only_impl, only_model = rel['ast'][0], rel['ast'][1]
                    cx.violations.append({'kind': 'operand-attribution', 'program': r['name'], 'prop': 'C11', 'field': 'ast', 'where': (only_impl or only_model or ['?'])[0],
                                          'detail': f"tool reconstructs {only_impl[:3]} where the concrete stack gives {only_model[:3]} (format: ast <block> <instruction position> <producer position>.<output index> ...)",
                                          'src': r['src'], 'env': None})
        # correspondence breaks: the tie between model and code no longer holds for what this property consumes
        if diffs:
            cx.broken.append(f"correspondence ({'/'.join(sorted(spec['phases']))}) differs on {len(diffs)} of {len(results)} programs, e.g. {diffs[0][0]['name']}: "
                             + json.dumps({k: v[:2] for k, v in diffs[0][1].items()})[:600])
            # failing-input search: more environments on exactly the programs that disagree
            if not cx.violations:
                again = []
                for r, _ in diffs[:40]:
                    again.append({'name': r['name'], 'src': r['src'], 'nenv': nenv * 8, 'seed': cx.seed + 1, 'ctx_fields': None, 'ctx_kinds': None})
                res2 = engine.run_items(again)
                for r in res2:
                    r['src'] = next(x['src'] for x in again if x['name'] == r['name'])
                st2, _ = classify(cx, pid, spec, res2)
                stats['search_envs'] = sum(r.get('stats', {}).get('accept', 0) for r in res2)
        replay_findings(cx, pid)
        for r in results[:400]:
            if r['status'] == 'ok' and r.get('stats', {}).get('accept', 0) > 0 and len(cx.samples) < 4:
                cx.samples.append({'program': r['name'], 'source': r['src'][:600], 'blocks': r.get('nblocks'), 'executions': r.get('stats'),
                                   'paths_reported': r.get('paths_impl')})
        return {'programs': len(results), 'disagreements_checked': len(diffs), 'engine': dict(stats),
                'streams': dict(collections.Counter(it['stream'] for it in items)),
                'oracle_runs': stats.get('accept', 0) + stats.get('reject', 0) + stats.get('fuel', 0),
                'accepting_runs': stats.get('accept', 0)}
    return run


def do_replay(cx, pid, spec, payload):
    """re-run the violations stored in a replay file"""
    for v in payload.get('violations', []):
        if v.get('src') and v.get('env'):
            e = v['env']
            item = {'name': 'replay', 'src': v['src'], 'envs': [e], 'nenv': 0, 'seed': 0}
            r = engine.process(item)
            r['src'] = v['src']
            classify(cx, pid, spec, [r])
    return {'programs': len(payload.get('violations', [])), 'disagreements_checked': 0, 'rule': 'replay of a stored violation'}


for _pid in SEM:
    REGISTRY[_pid] = semantic_check(_pid)


def c12_check(cx, replay=None):
    spec = dict(viol={'C12'}, phases=set(), ctx_fields=None, ctx_kinds=None)
    nprog, nenv = volumes(cx, 70, 60)
    items = [it for it in make_items(cx, spec, nprog, nenv, ('corpus', 'fragment', 'callfam', 'edgeroles')) if it['stream'] != 'saved']
    results = engine.run_items_with(engine.process_c12, items)
    src_of = {it['name']: it['src'] for it in items}
    diffs, npaths = [], 0
    for r in results:
        r['src'] = src_of.get(r['name'])
        r.setdefault('diff', {})
        npaths += r.get('npaths', 0)
        if r['status'] == 'diff':
            diffs.append(r)
    # classification: reuse the generic one (diffs handled here because they are keyed by path)
    for r in results:
        d = r['diff']; r['diff'] = {}
        if r['status'] == 'diff': r['status'] = 'ok'
        r['_d'] = d
    stats, _ = classify(cx, 'C12', spec, results)
    if diffs:
        cx.broken.append(f"correspondence (function graph / contexts per dispatch path) differs on {len(diffs)} of {len(results)} programs, e.g. {diffs[0]['name']}: {json.dumps(diffs[0]['_d'])[:600]}")
    for r in results[:300]:
        if r.get('npaths', 0) > 1 and len(cx.samples) < 4:
            cx.samples.append({'program': r['name'], 'dispatch_paths': r['npaths'], 'source': (r['src'] or '')[:400], 'executions_starting_with_a_path': r.get('stats', {}).get('path_runs')})
    return {'programs': len(results), 'disagreements_checked': len(diffs), 'dispatch_paths': npaths, 'engine': dict(stats)}

REGISTRY['C12'] = c12_check


import parsechecks
REGISTRY['C16'] = lambda cx, replay=None: parsechecks.c16(cx)
REGISTRY['C19'] = lambda cx, replay=None: parsechecks.c19(cx)


import clichecks
REGISTRY['C17'] = lambda cx, replay=None: clichecks.c17(cx)
REGISTRY['C18'] = lambda cx, replay=None: clichecks.c18(cx)


import regexcheck
REGISTRY['C20'] = lambda cx, replay=None: regexcheck.c20(cx)


import metachecks
REGISTRY['C14'] = lambda cx, replay=None: metachecks.c14(cx)
REGISTRY['C15'] = lambda cx, replay=None: metachecks.c15(cx)


import groupcheck
REGISTRY['C13'] = lambda cx, replay=None: groupcheck.c13(cx)
