#!/bin/bash
# run every seeded change against its property's quick check (seed 0) and print one line per change
cd /verif
for d in seeded/*/; do
  n=$(basename $d); pid=${n%%-*}
  [ -f $d/patch.diff ] || continue
  res=$(/verif/harness/seedrun.sh /verif/$d/patch.diff $pid 2>&1 | tail -1)
  echo "$n | $res"
done
git -C /repo status --short
