#!/bin/bash
# run every seeded change against its property's quick check (seed 0) and print one line per change.
# Works on a scratch worktree of /repo (PYTHONPATH / VERIF_REPO point the harness at it), so /repo itself is never touched
# and the sweep can run next to other work; regenerated Lean files and replays go to scratch directories.
cd /verif
wt=/tmp/sweep_repo
git -C /repo worktree remove --force $wt 2>/dev/null
git -C /repo worktree add -q --detach $wt HEAD || exit 3
export PYTHONPATH=$wt VERIF_REPO=$wt VERIF_GEN_DIR=/tmp/sweep_gen VERIF_REPLAY_DIR=/tmp/sweep_replays
mkdir -p $VERIF_GEN_DIR $VERIF_REPLAY_DIR
for d in seeded/*/; do
  n=$(basename $d); pid=${n%%-*}
  [ -f $d/patch.diff ] || continue
  if ! git -C $wt apply /verif/$d/patch.diff 2>/dev/null; then echo "$n | patch no longer applies"; continue; fi
  res=$(./check $pid --skip-lean 2>&1 | grep -v WARNING | grep -v KNOWN-FINDING | tail -2 | tr '\n' ' ')
  echo "$n | $res"
  git -C $wt checkout -- .
done
git -C /repo worktree remove --force $wt
