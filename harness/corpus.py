"""The repository's own TEAL sources: tests/**/*.teal and TEAL string constants in tests/**/*.py."""
import ast, glob, os

REPO = os.environ.get("VERIF_REPO", "/repo")

def looks_like_teal(s):
    if '\n' not in s: return False
    if '#pragma version' in s: return True
    lines = [l.strip() for l in s.splitlines() if l.strip()]
    if len(lines) < 3: return False
    kw = ('int ', 'txn ', 'byte ', 'global ', 'return', 'callsub ', 'bnz ', 'bz ', 'b ', 'assert', 'err', 'retsub', 'pushint')
    hits = sum(1 for l in lines if l.startswith(kw) or l.endswith(':'))
    return hits >= len(lines) * 0.6

def repo_sources():
    out = []
    for p in sorted(glob.glob(os.path.join(REPO, 'tests', '**', '*.teal'), recursive=True)):
        try:
            out.append((os.path.relpath(p, REPO), open(p, encoding='utf-8').read()))
        except Exception:
            pass
    for p in sorted(glob.glob(os.path.join(REPO, 'tests', '**', '*.py'), recursive=True)):
        try:
            tree = ast.parse(open(p, encoding='utf-8').read())
        except Exception:
            continue
        k = 0
        for node in ast.walk(tree):
            if isinstance(node, ast.Constant) and isinstance(node.value, str) and looks_like_teal(node.value):
                out.append((f"{os.path.relpath(p, REPO)}#{k}", node.value))
                k += 1
    return out

if __name__ == '__main__':
    s = repo_sources()
    print(len(s))
    for n, src in s[:5]:
        print(n, len(src.splitlines()))
