"""Generated/Asserted.lean: the recursion of generic.py over condition trees, translated from the Python AST of /repo:

  stack_ast_builder._flatten_ast            -> flattenAstPy
  stack_ast_builder.compute_equations       -> computeEquationsPy   (the lru_cache decorator is a pure memo: ignored)
  DataflowTransactionContext._get_asserted  -> getAssertedPy

The Python functions recurse on the stack-value tree without a bound.  The translation recurses on an explicit `fuel`
(structural recursion on a natural number) and returns `none` when it runs out: the tie theorems
(Props/TieAsserted.lean) show that with enough fuel the result is `some` of the model's value, for every stack AST
`construct_stack_ast` builds.  `self._get_asserted_single(key, v)` (the per-analysis leaf matcher, tied in
Props/TieMatchers.lean) is the parameter `single`."""
import ast
import inspect
import textwrap

from pydo import Fn, Untranslatable, lean_str
from flow_gen import FlowDo

NODE_CLASSES = ('And', 'Or')


class AssertedDo(FlowDo):
    """adds: lists of stack values, a class held in a variable (`node_ins`), fuel-bounded recursive calls"""
    def lean_type(self, t):
        m = {'svlist': 'List Tealer.PySV', 'cls': 'String'}
        if isinstance(t, str) and t in m: return m[t]
        return super().lean_type(t)

    def default_value(self, t):
        return '[]' if t == 'svlist' else super().default_value(t)

    def expr(self, e):
        s = self.src(e)
        if isinstance(e, ast.Name) and e.id in NODE_CLASSES and e.id not in self.env:
            return (lean_str(e.id), 'cls')
        if isinstance(e, ast.List):
            if not e.elts: return ('([] : List Tealer.PySV)', 'svlist')
            parts = [self.expr(x) for x in e.elts]
            if all(p[1] == 'sv' for p in parts): return ("[" + ", ".join(p[0] for p in parts) + "]", 'svlist')
        if isinstance(e, ast.BinOp) and isinstance(e.op, ast.Add):
            (l, lt), (r, rt) = self.expr(e.left), self.expr(e.right)
            if lt == rt == 'svlist': return (f"({l} ++ {r})", 'svlist')
            raise Untranslatable(f"{s}: {lt} + {rt}")
        if isinstance(e, ast.Call):
            f = self.src(e.func)
            if f == 'isinstance' and len(e.args) == 2 and isinstance(e.args[1], ast.Name) and self.env.get(e.args[1].id) == 'cls':
                c, t = self.expr(e.args[0])
                if t != 'op': raise Untranslatable(s)
                return (f"(Tealer.PyView.isClass {c} {e.args[1].id})", 'bool')
            if f in self.ctx.get('rec', {}):
                fn = self.ctx['rec'][f]
                if e.keywords or len(e.args) != len(fn.params): raise Untranslatable(f"call {s}: arity")
                args = []
                for a, want in zip(e.args, fn.params):
                    c, t = self.expr(a)
                    if t != want: raise Untranslatable(f"argument {self.src(a)} of {f}: have {t}, want {want}")
                    args.append(c)
                if fn.raises:
                    return (f"(← {fn.lean_name} " + " ".join(args) + ")", fn.ret)
                return (f"({fn.lean_name} " + " ".join(args) + ")", fn.ret)
        return super().expr(e)

    def block_(self, stmts, ind, declared, out, pad):
        for s in stmts:
            if isinstance(s, ast.For) and isinstance(s.target, ast.Name) and not s.orelse:
                c, t = self.expr(s.iter)
                if t == 'svlist':
                    self.env[s.target.id] = 'sv'
                    out.append(f"{pad}for {s.target.id} in {c} do")
                    inner = set(declared); inner.add(s.target.id)
                    self.loop_depth = getattr(self, 'loop_depth', 0) + 1
                    body = self.block(s.body, ind + 2, inner)
                    self.loop_depth -= 1
                    out += body if body else [f"{pad}  pure ()"]
                    self.env.pop(s.target.id, None)
                    continue
            if (isinstance(s, ast.Expr) and isinstance(s.value, ast.Call) and isinstance(s.value.func, ast.Attribute)
                    and s.value.func.attr == 'append' and isinstance(s.value.func.value, ast.Name) and len(s.value.args) == 1):
                name = s.value.func.value.id
                if self.env.get(name) != 'svlist' or name not in declared: raise Untranslatable(self.src(s))
                c, t = self.expr(s.value.args[0])
                if t != 'sv': raise Untranslatable(self.src(s))
                out.append(f"{pad}{name} := {name} ++ [{c}]")
                continue
            saved = self.after
            self.after = stmts[stmts.index(s) + 1:] + saved
            try:
                super().block_([s], ind, declared, out, pad)
            finally:
                self.after = saved
        return out


def translate_rec(pyfn, lean_name, fixed, params, ret, doc, ctx, fuel_recursive=True, generic=True):
    """fixed: Lean parameters before the fuel; params: (python name, type) after it (in the Python's order, `self` excluded
    when it is in `fixed`).  The body is an `Option` do-block; out of fuel is `none`."""
    tr = AssertedDo(ctx)
    tree = ast.parse(textwrap.dedent(inspect.getsource(inspect.unwrap(pyfn)))).body[0]
    names = [a.arg for a in tree.args.args]
    want = [p[0] for p in fixed if p[0] is not None] + [p[0] for p in params]
    if names != want: raise Untranslatable(f"signature of {pyfn.__qualname__}: {names}, expected {want}")
    for d in tree.decorator_list:
        if ast.unparse(d) not in ('lru_cache(maxsize=None)',): raise Untranslatable(f"decorator {ast.unparse(d)}")
    tr.env = {p[1]: p[2] for p in fixed}
    tr.env.update({p[0]: p[1] for p in params})
    tr.none_vars = tr.infer_var_types(tree)
    tr.pending_none, tr.var_lean_types, tr.lines_ref = {}, {}, []
    tr.ret_type, tr.raises = ret, False
    tr.after, tr.seen_types = [], {}
    tr.final_value = None
    body = [st for st in tree.body if not (isinstance(st, ast.Expr) and isinstance(st.value, ast.Constant))]
    if not isinstance(body[-1], ast.Return): raise Untranslatable("function may fall off its end")
    lines = tr.block(body, 4 if fuel_recursive else 2, set(tr.env))
    text = "\n".join(lines)
    for n in tr.none_vars:
        if f"%TYPE_{n}%" in text: raise Untranslatable(f"optional variable {n}")
    fsig = " ".join(f"({p[1]} : {tr.lean_type(p[2])})" for p in fixed)
    rty = tr.lean_type(ret)
    dsig = '{D : Type} ' if generic else ''
    if fuel_recursive:
        ptys = " → ".join(tr.lean_type(p[1]) for p in params)
        head = [f"def {lean_name} {dsig}{fsig} : Nat → {ptys} → Option ({rty})",
                "  | 0, " + ", ".join("_" for _ in params) + " => none    -- out of fuel",
                "  | fuel + 1, " + ", ".join(p[0] for p in params) + " => do"]
    else:
        psig = " ".join(f"({p[0]} : {tr.lean_type(p[1])})" for p in params)
        head = [f"def {lean_name} {dsig}{fsig} (fuel : Nat) {psig} : Option ({rty}) := do"]
    return [f"/-- {doc} -/"] + head + [text, ""]


def gen_asserted():
    from tealer.analyses.dataflow.transaction_context import generic
    from tealer.analyses.utils import stack_ast_builder as sab
    from matchers_gen import field_classes
    cls = generic.DataflowTransactionContext
    errors, out = [], ["/- REGENERATED on every run by harness/asserted_gen.py (+ flow_gen.py, pydo.py): the recursion over condition trees -",
                       "   stack_ast_builder._flatten_ast, compute_equations and DataflowTransactionContext._get_asserted - translated statement by",
                       "   statement from the Python AST of /repo.  The unbounded Python recursion is bounded by `fuel` (`none` when it runs out). -/",
                       "import TealerModel.PyView", "import TealerModel.Dom", "set_option linter.unusedVariables false",
                       "namespace Tealer.Generated", ""]
    base = {'field_classes': field_classes(), 'funcs': {}, 'names': {}, 'special': {}}
    SVL = 'svlist'
    def emit(pyfn, *a, **kw):
        try:
            out.extend(translate_rec(pyfn, *a, **kw))
        except Untranslatable as e:
            errors.append(f"{pyfn.__qualname__}: {e}")
            out.extend([f"-- {pyfn.__qualname__} could not be translated: {e}", ""])
    c1 = dict(base); c1['rec'] = {'_flatten_ast': Fn('flattenAstPy fuel', ['sv', 'cls'], SVL, True)}
    emit(sab._flatten_ast, 'flattenAstPy', [], [('root', 'sv'), ('node_ins', 'cls')], SVL,
         'translated from analyses/utils/stack_ast_builder._flatten_ast (`node_ins`: the class, by name)', c1, generic=False)
    c2 = dict(base); c2['rec'] = {'_flatten_ast': Fn('flattenAstPy fuel', ['sv', 'cls'], SVL, True)}
    emit(sab.compute_equations, 'computeEquationsPy', [], [('root', 'sv'), ('node_ins', 'cls')], ('tuple', [SVL, 'bool']),
         'translated from analyses/utils/stack_ast_builder.compute_equations', c2, fuel_recursive=False, generic=False)
    c3 = dict(base)
    DV2 = ('tuple', ['dval', 'dval'])
    c3['rec'] = {'self._get_asserted': Fn('getAssertedPy dom univ single self fuel', ['key', 'sv'], DV2, True),
                 'self._get_asserted_single': Fn('single', ['key', 'sv'], DV2, False),
                 'compute_equations': Fn('computeEquationsPy fuel', ['sv', 'cls'], ('tuple', [SVL, 'bool']), True)}
    emit(cls._get_asserted, 'getAssertedPy',
         [(None, 'dom', 'dom'), (None, 'univ', 'dval'), (None, 'single', 'single'), ('self', 'self', 'env')],
         [('key', 'key'), ('ins_stack_value', 'sv')], DV2,
         'translated from DataflowTransactionContext._get_asserted; `single key v` = self._get_asserted_single(key, v), `univ` = self._universal_set(key)', c3)
    return "\n".join(out + ["end Tealer.Generated", ""]), errors


_lt = AssertedDo.lean_type
def _lean_type(self, t):
    if t == 'single': return 'Tealer.Key → Tealer.PySV → D × D'
    return _lt(self, t)
AssertedDo.lean_type = _lean_type


if __name__ == '__main__':
    import sys
    text, errs = gen_asserted()
    print(text)
    print(errs, file=sys.stderr)
