#!/bin/bash
# seedverify.sh <PID> <mN>: confirm a seeded change in a scratch worktree: demo fails with it, passes without, test suite passes with it
pid=$1; m=$2; src=/tmp/seed_$pid/$m; wt=/tmp/sv_${pid}_$m
log=/tmp/seedlogs/${pid}_$m.log
exec > $log 2>&1
set -x
git -C /repo worktree add -q --detach $wt HEAD || exit 3
cd $wt
PYTHONPATH=$wt /venv/bin/python $src/demo.py; echo "DEMO_CLEAN_EXIT=$?"
git apply $src/patch.diff || { echo "APPLY_FAILED"; exit 4; }
PYTHONPATH=$wt /venv/bin/python -c "import tealer; print('TEALER_AT', tealer.__file__)"
PYTHONPATH=$wt /venv/bin/python $src/demo.py; echo "DEMO_MUT_EXIT=$?"
PYTHONPATH=$wt timeout 3000 /venv/bin/python -m pytest -q -p no:cacheprovider --timeout=900 2>&1 | tail -3; echo "TESTS_DONE"
cd /; git -C /repo worktree remove --force $wt
