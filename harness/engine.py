"""Per-program work: real tool vs model (correspondence by phase) + semantic oracle on both, in worker processes."""
import os, sys, random, collections, multiprocessing, json, time, traceback
sys.path.insert(0, os.path.dirname(__file__))

import oracle as O
import shapes as S
import structural as ST

MAXU64 = 2**64 - 1


class View:
    """structured view of one side's rendered lines (real tool or model)"""
    def __init__(self, lines):
        self.lines = lines
        self.ctx = O.parse_ctx_lines(lines)
        self.paths = {}
        self.err = None
        self.fblocks = {}       # key -> dict(idx, next, prev, leaf, abs, sub)
        self.fsubs = {}
        self.fentry = None
        for l in lines:
            w = l.split(' ')
            if w[0] == 'paths':
                self.paths[w[1]] = [p for p in (w[2] if len(w) > 2 else '').split('|') if p]
            elif w[0] == 'err':
                if w[1] == 'detect':
                    self.paths[w[2]] = None
                else:
                    self.err = ' '.join(w[1:])
            elif w[0] == 'fentry':
                self.fentry = int(w[1])
            elif w[0] == 'fblock':
                d = dict(f.partition('=')[::2] for f in w[2:])
                self.fblocks[int(w[1])] = {
                    'idx': int(d['idx']), 'sub': d['sub'],
                    'next': [int(x) for x in d['next'].split(',') if x], 'prev': [int(x) for x in d['prev'].split(',') if x],
                    'leaf': d.get('leaf') == '1', 'abs': d.get('abs') == '1', 'n': int(d['n']), 'exit': d.get('exit', '-')}
            elif w[0] == 'fsub':
                d = dict(f.partition('=')[::2] for f in w[2:])
                self.fsubs[w[1]] = {k: [int(x) for x in v.split(',') if x] for k, v in d.items()}
        self.idx_key = {b['idx']: k for k, b in self.fblocks.items()}
        self.abs_blocks = set(b['idx'] for b in self.fblocks.values() if b['abs'])
        self.analysed = self.err is None and any(l.startswith('ctx ') for l in lines)

    def context(self, key, kind='self', k=0):
        return self.ctx.get((key, kind, k), O.DEFAULT_TAIL)


def info_from_toks(toks):
    info = O.ProgInfo([], None)
    for t in toks:
        _, op, args = S.split_tok(t)
        if op in ('int', 'pushint'):
            info.consts.add(int(args[0]))
        elif op == 'intcblock':
            info.consts.update(int(a) for a in args)
        elif op == 'addr':
            info.addr_lits.add(args[0])
        elif op == 'txn':
            info.reads.setdefault('self', set()).add(args[0])
        elif op == 'gtxn':
            info.reads.setdefault(('abs', int(args[0])), set()).add(args[1]); info.abs_idx.add(int(args[0]))
        elif op == 'gtxns':
            info.stack_fields.add(args[0])
    return info


def eval_view(view, envs, results):
    """oracle verdicts of one side: set of (prop, field, where, envidx) + details"""
    viol = {}
    stats = collections.Counter()
    for j, ((size, self_idx, txns), r) in enumerate(zip(envs, results)):
        if r['tag'] != 'accept':
            continue
        m = txns[self_idx]
        blocks = r['blocks']
        for b in dict.fromkeys(blocks):
            key = view.idx_key.get(b)
            if key is None:
                viol[('C04', 'trace', f"b{b}", j)] = f"executed block {b} is not a block of the function"
                continue
            stats['checked_blocks'] += 1
            c = view.context(key)
            if size not in c['sizes']:
                viol[('C06', 'GroupSize', f"b{b}", j)] = f"block {b}: size {size} not in {c['sizes']}"
            if self_idx not in c['indices']:
                viol[('C06', 'GroupIndex', f"b{b}", j)] = f"block {b}: index {self_idx} not in {c['indices']}"
            for p, f, d in O.admits(c, m, f"block {b} self"):
                viol[(p, f, f"b{b}", j)] = d
            for p, f, d in O.admits(view.context(key, 'at', self_idx), m, f"block {b} at-index {self_idx}"):
                viol[('C10', f, f"b{b}.at{self_idx}", j)] = p + ' ' + d
            for i, mi in txns.items():
                if i >= size: continue
                for p, f, d in O.admits(view.context(key, 'abs', i), mi, f"block {b} abs {i}"):
                    viol[('C10', f, f"b{b}.abs{i}", j)] = p + ' ' + d
                k = i - self_idx
                if k != 0:
                    for p, f, d in O.admits(view.context(key, 'rel', k), mi, f"block {b} rel {k}"):
                        viol[('C10', f, f"b{b}.rel{k}", j)] = p + ' ' + d
        for det in O.DET_FORCE:
            if O.is_dangerous(det, size, m, blocks, view.abs_blocks):
                stats['dangerous_accepts'] += 1
                ps = view.paths.get(det)
                if ps is not None and len(ps) == 0:
                    viol[('C01', det, 'paths', j)] = f"accepting dangerous execution (blocks {blocks}) but no path reported"
    return viol, stats


def func_iso_violations(lines, view):
    """for the whole-contract function (dispatch path [B0]): the copied main blocks have the edges of the contract's
    main blocks, in the same order"""
    viol = {}
    blocks, subs, live = ST.parse_blocks(lines)
    for key, fb in view.fblocks.items():
        if key >= SUB_OFF_: continue
        tb = blocks.get(fb['idx'])
        if tb is None:
            viol[('C04', 'func-block', f"B{fb['idx']}", 0)] = f"function block {fb['idx']} has no counterpart in the contract"; continue
        nx = [view.fblocks[k]['idx'] if k in view.fblocks else k for k in fb['next']]
        if nx != tb['next']:
            viol[('C04', 'func-edges', f"B{fb['idx']}", 0)] = f"function copy of block {fb['idx']} has successors {nx}, the contract's block has {tb['next']}"
    return viol

SUB_OFF_ = 1048576
ERR_OFF_ = 1073741824


def checks_field(det, c):
    """independent transcription of the nine detectors' predicates on a parsed context"""
    if det == 'rekey-to': return not c['RekeyTo']['any']
    if det == 'can-close-account': return not (c['CloseRemainderTo']['any'] and 16 in c['types'])
    if det == 'can-close-asset': return not (c['AssetCloseTo']['any'] and 64 in c['types'])
    if det == 'missing-fee-check': return c['fee'] is None or c['fee'] <= 272000
    if det == 'is-updatable': return 100 not in c['types']
    if det == 'is-deletable': return 101 not in c['types']
    if det == 'unprotected-updatable': return not (100 in c['types'] and c['Sender']['any'])
    if det == 'unprotected-deletable': return not (101 in c['types'] and c['Sender']['any'])
    if det == 'group-size-check': return False if not c['sizes'] and not c['indices'] and c is not None and c.get('_tail') else 16 not in c['sizes']
    return False


def validated(view, det, key):
    c = view.context(key)
    if checks_field(det, c): return True
    for i in c['indices']:
        ci = dict(view.context(key, 'at', i)); ci['_tail'] = True
        if det == 'group-size-check':
            return False
        if not checks_field(det, ci): return False
    return True


def path_violations(view):
    """C02: every reported path is a matched walk from the entry to a leaf, no block twice per activation, no
    validated block, no path twice"""
    viol = {}
    fb = view.fblocks
    entry_of = {name: d['entry'][0] for name, d in view.fsubs.items() if d.get('entry')}
    for det, ps in view.paths.items():
        if ps is None: continue
        if len(set(ps)) != len(ps):
            viol[('C02', det, 'duplicate', 0)] = f"a path is reported twice: {ps}"
        for p in ps:
            idxs = [int(x) for x in p.split('-')]
            keys = [view.idx_key.get(i) for i in idxs]
            if None in keys:
                viol[('C02', det, p, 0)] = "path names a block that is not in the function"; continue
            if keys[0] != view.fentry:
                viol[('C02', det, p, 0)] = "path does not start at the entry block"
            if not fb[keys[-1]]['leaf']:
                viol[('C02', det, p, 0)] = "path does not end in a block where execution can terminate"
            stack, exe = [], [[]]
            for a, b in zip(keys, keys[1:] + [None]):
                A = fb[a]
                if a in exe[-1]:
                    viol[('C02', det, p, 0)] = f"block {A['idx']} revisited within one activation"; break
                exe[-1].append(a)
                if validated(view, det, a):
                    viol[('C02', det, p, 0)] = f"block {A['idx']} excludes the dangerous value but is on a reported path"; break
                if b is None: break
                ex = A['exit']
                if ex.startswith('callsub:'):
                    ok = entry_of.get(ex[8:]) == b
                    stack.append(A['next'][0] if A['next'] else None); exe.append([])
                elif ex == 'retsub':
                    ok = bool(stack) and stack.pop() == b
                    if len(exe) > 1: exe.pop()
                else:
                    ok = b in A['next']
                if not ok:
                    viol[('C02', det, p, 0)] = f"step {A['idx']} -> {fb[b]['idx']} is not an edge of the global graph / not the matching return point"; break
            else:
                pass
    return viol


TWOFIELD_DETS = ('rekey-to', 'can-close-account', 'can-close-asset', 'is-updatable', 'is-deletable', 'unprotected-updatable', 'unprotected-deletable')

def exact_violations(view, envs, results):
    """exactness on the direct-check family, where the concrete semantics IS the literal reading:
    C06: a size / index is listed for a block iff some accepting execution through it has that size / index;
    C09: a known bound equals the largest approvable fee (among the region representatives);
    C03: a detector reports a path only if some accepting execution carries its dangerous value"""
    viol = {}
    seen_sizes, seen_idx, max_fee, through = {}, {}, {}, set()
    dangerous = set()
    for (size, self_idx, txns), r in zip(envs, results):
        if r['tag'] != 'accept': continue
        m = txns[self_idx]
        for b in set(r['blocks']):
            seen_sizes.setdefault(b, set()).add(size); seen_idx.setdefault(b, set()).add(self_idx)
            max_fee[b] = max(max_fee.get(b, -1), m.get('Fee', 0)); through.add(b)
        for det in ('missing-fee-check', 'group-size-check'):
            if O.is_dangerous(det, size, m, r['blocks'], view.abs_blocks): dangerous.add(det)
    all_sizes_tried = len(set(e[0] for e in envs)) == 16
    all_idx_tried = all_sizes_tried and len(set((e[0], e[1]) for e in envs)) == 136
    for key, fb in view.fblocks.items():
        b = fb['idx']
        c = view.context(key)
        if all_sizes_tried and set(c['sizes']) != seen_sizes.get(b, set()):
            viol[('C06', 'exact-sizes', f"b{b}", 0)] = f"block {b}: sizes listed {c['sizes']}, sizes of accepting executions through it {sorted(seen_sizes.get(b, set()))}"
        if all_idx_tried and set(c['indices']) != seen_idx.get(b, set()):
            viol[('C06', 'exact-indices', f"b{b}", 0)] = f"block {b}: indices listed {c['indices']}, indices of accepting executions through it {sorted(seen_idx.get(b, set()))}"
        if b in through and c['fee'] is not None and c['fee'] != max_fee[b] and len(set(m.get('Fee') for e in envs for m in [e[2][e[1]]])) > 2:
            viol[('C09', 'exact-fee', f"b{b}", 0)] = f"block {b}: bound {c['fee']}, largest approvable fee among the representatives {max_fee[b]}"
        if b not in through and (c['sizes'] or c['indices']):
            if all_sizes_tried:
                viol[('C06', 'exact-empty', f"b{b}", 0)] = f"block {b} is on no accepting execution but lists sizes {c['sizes']}"
    gfee = any(' gtxn 0 Fee' in l or 'gtxn,0,Fee' in l for l in getattr(view, 'lines', []))
    if len(envs) == 288 and all(e[0] == 1 for e in envs):
        # the kind-check x address-check family: the enumeration covers every region, so every detector's verdict is exact
        dangerous2 = set()
        for (size, self_idx, txns), r in zip(envs, results):
            if r['tag'] != 'accept': continue
            for det in TWOFIELD_DETS:
                if O.is_dangerous(det, size, txns[self_idx], r['blocks'], view.abs_blocks): dangerous2.add(det)
        for det in TWOFIELD_DETS:
            ps = view.paths.get(det)
            if ps and det not in dangerous2:
                viol[('C03', det, 'imprecise', 0)] = f"{det} reports {ps} although no accepting execution carries the dangerous value (every accepting path excludes it)"
        return viol
    for det in ('missing-fee-check', 'group-size-check'):
        ps = view.paths.get(det)
        if ps and det not in dangerous and not gfee:
            viol[('C03', det, 'imprecise', 0)] = f"{det} reports {ps} although no accepting execution carries the dangerous value (every accepting path excludes it)"
    return viol


def walk_violations(view, envs, results):
    """C04: the block trace of every execution is a matched walk of the tool's global graph"""
    viol = {}
    fb = view.fblocks
    entry_of = {name: d['entry'][0] for name, d in view.fsubs.items() if d.get('entry')}
    for j, r in enumerate(results):
        if r['tag'] not in ('accept', 'reject'):
            continue
        if r.get('wf') == '0':
            viol[('C04', 'single-entry', 'trace', j)] = "a block was entered in the middle or left before its last instruction"
            continue
        blocks = [view.idx_key.get(b) for b in r['blocks']]
        if None in blocks:
            viol[('C04', 'trace', 'unknown-block', j)] = f"trace {r['blocks']} leaves the graph"
            continue
        if blocks and blocks[0] != view.fentry:
            viol[('C04', 'entry', 'trace', j)] = f"trace {r['blocks']} does not start at the entry block"
        stack = []
        for a, b in zip(blocks, blocks[1:]):
            A = fb[a]
            ex = A['exit']
            if ex.startswith('callsub:'):
                ok = entry_of.get(ex[8:]) == b
                stack.append(A['next'][0] if A['next'] else None)
            elif ex == 'retsub':
                ok = bool(stack) and stack.pop() == b
            else:
                ok = b in A['next']
            if not ok:
                viol[('C04', 'walk', f"{A['idx']}->{fb[b]['idx']}", j)] = f"step {A['idx']} -> {fb[b]['idx']} of trace {r['blocks']} is not an edge of the graph"
                break
    return viol


def project(lines, fields, kinds):
    """keep of the ctx lines only the context kinds / fields a property's theorems consume"""
    if not fields and not kinds:
        return lines
    out = []
    for l in lines:
        if not l.startswith('ctx '):
            out.append(l); continue
        w = l.split(' ')
        if kinds and w[2] not in kinds:
            continue
        if fields:
            w = w[:4] + [f for f in w[4:] if f.partition('=')[0] in fields]
        out.append(' '.join(w))
    return out


_DRV = None
def driver():
    global _DRV
    if _DRV is None:
        _DRV = O.Driver()
    return _DRV


def model_prog(drv, toks, pathspec='0'):
    drv.p.stdin.write(f"prog 0 {pathspec} " + ' '.join(toks) + "\n"); drv.p.stdin.flush()
    out = []
    while True:
        l = drv.p.stdout.readline()
        if not l: raise RuntimeError("model driver died")
        l = l.rstrip('\n')
        if l.startswith('end '): break
        if l.startswith('premises '):
            # model-only line: do the decidable graph premises of the solver theorems (Solver.fwdWF / bwdWF) hold here?
            global LAST_PREMISES
            LAST_PREMISES = l
            continue
        out.append(l)
    return out

LAST_PREMISES = None


def process(item):
    """item: dict(name, src, nenv, seed, path). Returns a JSON-able result."""
    import impl, corr
    name, src = item['name'], item['src']
    res = {'name': name, 'status': 'ok', 'diff': {}, 'viol_impl': [], 'viol_model': [], 'stats': {}, 'shapes': [], 'lines': len(src.splitlines())}
    t0 = time.time()
    try:
        toks, ilines = impl.analyse_source(src, path=tuple(item.get('path', ("B0",))), limit=item.get('limit', 12))
        if toks is None:
            res['status'] = 'impl-parse-error'; res['detail'] = ilines; return res
        res['ntoks'] = len(toks)
        if 'err timeout' in ilines:
            # the real tool did not finish within the per-case limit (path explosion): not a verdict of either side
            res['status'] = 'impl-timeout'; return res
        res['shapes'] = sorted(S.shapes_of(toks))
        O.UNKNOWN_FEE_OPERAND = 'feeUnknownOperand' in res['shapes']
        drv = driver()
        global LAST_PREMISES
        LAST_PREMISES = None
        mlines = model_prog(drv, toks, '.'.join(p[1:] for p in item.get('path', ("B0",))))
        res['premises'] = LAST_PREMISES
        cf, ck = item.get('ctx_fields'), item.get('ctx_kinds')
        # blocks shared between the main code and a subroutine, or between two subroutines ("subroutine bodies entered only
        # through callsub" is violated): only the contract-level graph is in any property's scope
        seen, shared = {}, False
        for l in ilines:
            if l.startswith('sub '):
                w = l.split(' ')
                for x in dict(f.partition('=')[::2] for f in w[2:]).get('blocks', '').split(','):
                    if x:
                        if x in seen and seen[x] != w[1]: shared = True
                        seen[x] = w[1]
        res['shared_blocks'] = shared
        if shared:
            keep = lambda ls: [l for l in ls if corr.phase(l) in ('cfg', 'subs')]
            ilines, mlines = keep(ilines), keep(mlines)
        d = corr.diff(project(ilines, cf, ck), project(mlines, cf, ck))
        res['diff'] = {k: [v[0][:5], v[1][:5], len(v[0]), len(v[1])] for k, v in d.items()}
        iv, mv = View(ilines), View(mlines)
        res['impl_err'] = iv.err; res['model_err'] = mv.err
        res['nblocks'] = len(iv.fblocks)
        res['paths_impl'] = {k: (len(v) if v is not None else -1) for k, v in iv.paths.items()}
        # structural oracles (C04 / C05 / C12-iso) on both sides
        def structural(lines, view):
            v = {}
            v.update(ST.cfg_violations(lines, toks))
            v.update(ST.sub_violations(lines, toks))
            if not shared:
                v.update(func_iso_violations(lines, view))
            return v
        svi = structural(ilines, iv)
        svm = structural(mlines, mv) if d else svi
        # a `retsub` block in the main function (reachable `retsub` outside every subroutine), wherever it stands in the text
        if any(l.startswith('fblock ') and ' sub=__main__' in l and ' exit=retsub' in l for l in list(ilines) + list(mlines)):
            res['shapes'] = sorted(set(res['shapes']) | {'retsubInMain'})
        if any(l.startswith('block ') and ' live=0 ' in l and not l.split(' next=')[1].startswith(' ') for l in ilines):
            res['shapes'] = sorted(set(res['shapes']) | {'deadTwoSucc'})
        res['viol_impl'] = [{'prop': p_, 'field': f_, 'where': w_, 'env': j_, 'detail': det_, 'in_other': (p_, f_, w_, j_) in svm}
                            for (p_, f_, w_, j_), det_ in svi.items()]
        nenv = item.get('nenv', 0)
        if (nenv or item.get('envs')) and (iv.analysed or mv.analysed):
            rng = random.Random(f"env/{item.get('seed', 0)}/{name}")
            info = info_from_toks(toks)
            if item.get('exact') == 'twofield':
                envs = O.twofield_envs(' '.join(toks))
            elif item.get('exact'):
                envs = O.exact_envs(info, ' '.join(toks))
            elif item.get('envs'):
                envs = [(e['size'], e['self'], {int(i): m for i, m in e['txns'].items()}) for e in item['envs']]
            else:
                envs = list(O.draw_envs(info, rng, nenv))
            if drv.load(toks) != 'semprog ok':
                res['status'] = 'model-semprog-error'; return res
            rr = [O.parse_res(l) for l in drv.run_many([O.env_line(j, item.get('fuel', 4000), s, i, t) for j, (s, i, t) in enumerate(envs)])]
            st = collections.Counter(r['tag'] for r in rr)
            res['stats'] = dict(st)
            if iv.analysed and mv.fblocks:
                # "reads another transaction by absolute index" is judged by the reference model, not by the tool under test
                iv.abs_blocks = mv.abs_blocks
            if iv.analysed:
                vi, s1 = eval_view(iv, envs, rr)
                vi.update(walk_violations(iv, envs, rr))
                vi.update(path_violations(iv))
                if item.get('exact'):
                    vi.update(exact_violations(iv, envs, rr))
                res['stats'].update(s1)
            else:
                vi = {}
            if d and mv.analysed:
                vm, _ = eval_view(mv, envs, rr)
                vm.update(walk_violations(mv, envs, rr))
                vm.update(path_violations(mv))
                if item.get('exact'):
                    vm.update(exact_violations(mv, envs, rr))
            else:
                vm = vi if not d else {}
            def pack(v, other):
                out = []
                for (p, f, w, j), det in v.items():
                    out.append({'prop': p, 'field': f, 'where': w, 'env': j, 'detail': det, 'in_other': (p, f, w, j) in other})
                return out
            res['viol_impl'] = res['viol_impl'] + pack(vi, vm)
            res['viol_model_only'] = sum(1 for k in vm if k not in vi)
            # keep the environments of violating runs for replay
            keep = sorted(set(x['env'] for x in res['viol_impl']))[:5]
            res['envs'] = {j: {'size': envs[j][0], 'self': envs[j][1], 'txns': {str(i): m for i, m in envs[j][2].items()}, 'result': rr[j]} for j in keep}
        if d:
            res['status'] = 'diff'
    except Exception as e:  # noqa
        res['status'] = 'harness-error'; res['detail'] = traceback.format_exc()[-2000:]
    res['wall'] = time.time() - t0
    return res


def run_items(items, procs=None):
    procs = procs or min(16, os.cpu_count() or 4)
    if len(items) <= 2 or procs == 1:
        return [process(i) for i in items]
    with multiprocessing.get_context('fork').Pool(procs) as pool:
        return pool.map(process, items, chunksize=max(1, len(items) // (procs * 4)))


def dispatch_paths(src, maxlen=4, cap=6, rng=None):
    """root-to-block prefixes of the main graph of the real parse"""
    import impl
    teal, cap_ = impl.parse(src)
    main = set(teal.main.blocks)
    paths, frontier = [], [[teal.main.entry]]
    while frontier and len(paths) < 200:
        p = frontier.pop(0)
        paths.append(p)
        if len(p) < maxlen:
            for n in p[-1].next:
                if n in main and n not in p:
                    frontier.append(p + [n])
    out = [tuple(f"B{b.idx}" for b in p) for p in paths]
    if rng is not None and len(out) > cap:
        keep = [out[0]] + rng.sample(out[1:], cap - 1)
        out = keep
    return out[:cap]


def process_c12(item):
    """C12: functions cut out by dispatch paths. Per path: correspondence with the model, contexts sound w.r.t. the executions
    that start with the path; building functions leaves the contract's graph unchanged and is order independent."""
    import impl, corr
    name, src = item['name'], item['src']
    res = {'name': name, 'status': 'ok', 'diff': {}, 'viol_impl': [], 'stats': {}, 'shapes': [], 'npaths': 0}
    try:
        rng = random.Random(f"c12/{item.get('seed', 0)}/{name}")
        try:
            with impl.time_limit(20):
                paths = dispatch_paths(src, rng=rng)
        except BaseException as e:
            res['status'] = 'impl-parse-error'; return res
        res['npaths'] = len(paths)
        drv = driver()
        # (a) the contract's graph before / after building all functions, in two orders
        with impl.time_limit(60):
            teal, cap = impl.parse(src)
            before = impl.render_teal(teal, cap)
            toks = [impl.enc_ins(i) for i in cap.instructions]
            res['shapes'] = sorted(S.shapes_of(toks))
            O.UNKNOWN_FEE_OPERAND = 'feeUnknownOperand' in res['shapes']
            per_path = {}
            built = []           # (path, function object, what was rendered right after it was built)
            for order in (paths, list(reversed(paths))):
                for pth in order:
                    try:
                        fn = impl.construct_function_traced(teal, list(pth))
                        keys = impl.block_keys(fn)
                        lines = impl.render_function(fn, keys) + impl.render_contexts(fn, keys)
                        built.append((pth, fn, keys, lines))
                    except impl.AnalysisFailed as af:
                        keys = impl.block_keys(af.fn)
                        lines = impl.render_function(af.fn, keys) + ['err analyse ' + impl.exc_name(af.exc)]
                    except BaseException as e:
                        if isinstance(e, impl.Timeout): raise
                        lines = ['err func ' + impl.exc_name(e)]
                    per_path.setdefault(pth, []).append(lines)
            after = impl.render_teal(teal, cap)
            # "independent of which other functions were built": what a function object answers AFTER all the others were built
            # (graph and contexts) is what it answered right after its own construction
            later = []
            for pth, fn, keys, lines in built:
                try:
                    again = impl.render_function(fn, keys) + impl.render_contexts(fn, keys)
                except BaseException as e:
                    if isinstance(e, impl.Timeout): raise
                    again = ['err rerender ' + impl.exc_name(e)]
                if again != lines:
                    later.append((pth, corr.diff(lines, again)))
        viol = {}
        for pth, d in later[:3]:
            viol[('C12', 'altered-by-later-functions', '.'.join(pth), 0)] = f"the function for path {pth} answers differently after the other functions of the contract were built: {json.dumps({k: [v[0][:1], v[1][:1]] for k, v in d.items()})[:400]}"
        if before != after:
            d = corr.diff(before, after)
            viol[('C12', 'graph-altered', 'teal', 0)] = f"building functions changed the contract's own graph: {json.dumps({k: [v[0][:2], v[1][:2]] for k, v in d.items()})[:400]}"
        for pth, (l1, l2) in per_path.items():
            if l1 != l2:
                d = corr.diff(l1, l2)
                viol[('C12', 'order-dependent', '.'.join(pth), 0)] = f"function for path {pth} differs when the functions are built in another order: {json.dumps({k: [v[0][:1], v[1][:1]] for k, v in d.items()})[:400]}"
        # (b) per path: model correspondence + soundness w.r.t. executions that start with the path
        info = info_from_toks(toks)
        envs = list(O.draw_envs(info, rng, item.get('nenv', 60)))
        rr = None
        for pth in paths:
            ilines = per_path[pth][0]
            mlines = model_prog(drv, toks, '.'.join(p[1:] for p in pth))
            keep = lambda ls: [l for l in ls if corr.phase(l) in ('func', 'ctx', 'err')]
            d = corr.diff(keep(ilines), keep(mlines))
            if d:
                res['status'] = 'diff'
                res['diff'][','.join(pth)] = {k: [v[0][:3], v[1][:3], len(v[0]), len(v[1])] for k, v in d.items()}
            iv = View(ilines)
            # "every departure from the path before Bk leads to an error block": in the function built by the real tool, the
            # copy of a path block Bi (i < k) has the copy of B(i+1) as its only successor that is not an error block
            want_ = [int(p[1:]) for p in pth]
            by_idx = {fb['idx']: (key, fb) for key, fb in iv.fblocks.items() if key < SUB_OFF_}
            for i_, bi in enumerate(want_[:-1]):
                if bi not in by_idx: continue
                key_, fb_ = by_idx[bi]
                nxt_ok = by_idx.get(want_[i_ + 1], (None, None))[0]
                bad = [k for k in fb_['next'] if k != nxt_ok and k < ERR_OFF_]
                if bad:
                    names = [f"B{iv.fblocks[k]['idx']}" if k in iv.fblocks else str(k) for k in bad]
                    viol[('C12', 'departure', ','.join(pth) + f':B{bi}', 0)] = (f"in the function for dispatch path {list(pth)} block B{bi} keeps the edge(s) to {names}: "
                        f"a departure from the path before B{want_[-1]} must lead to an error block")
            if iv.analysed:
                if rr is None:
                    if drv.load(toks) != 'semprog ok': break
                    rr = [O.parse_res(l) for l in drv.run_many([O.env_line(j, 4000, s_, i_, t_) for j, (s_, i_, t_) in enumerate(envs)])]
                want = [int(p[1:]) for p in pth]
                sel = [(e, r) for e, r in zip(envs, rr) if r['tag'] == 'accept' and r['blocks'][:len(want)] == want]
                res['stats']['path_runs'] = res['stats'].get('path_runs', 0) + len(sel)
                if any(set(r['blocks'][len(want):]) & set(want[:-1]) for _, r in sel):
                    res['shapes'] = sorted(set(res['shapes']) | {'pathRevisit'})
                mv = View(mlines)
                if mv.fblocks: iv.abs_blocks = mv.abs_blocks
                vi, _ = eval_view(iv, [e for e, _ in sel], [r for _, r in sel])
                vm, _ = eval_view(mv, [e for e, _ in sel], [r for _, r in sel]) if (d and mv.analysed) else (vi, None)
                for k, det in vi.items():
                    if k[0] in ('C06', 'C07', 'C08', 'C09', 'C10'):
                        viol[('C12', k[0] + ':' + k[1], ','.join(pth) + ':' + k[2], k[3])] = det + ('' if k in vm else ' [model does not exhibit it]')
                        res.setdefault('model_has', {})[str(('C12', k[0] + ':' + k[1], ','.join(pth) + ':' + k[2], k[3]))] = k in vm
            # path [B0]: isomorphic to the main graph
        mh = res.get('model_has', {})
        res['viol_impl'] = [{'prop': p_, 'field': f_, 'where': w_, 'env': j_, 'detail': det_, 'in_other': mh.get(str((p_, f_, w_, j_)), False) if f_ not in ('graph-altered', 'order-dependent', 'altered-by-later-functions') else False}
                            for (p_, f_, w_, j_), det_ in viol.items()]
    except impl.Timeout:
        res['status'] = 'impl-timeout'
    except Exception:
        res['status'] = 'harness-error'; res['detail'] = traceback.format_exc()[-2000:]
    return res


def run_items_with(fn, items, procs=None):
    procs = procs or min(16, os.cpu_count() or 4)
    if len(items) <= 2:
        return [fn(i) for i in items]
    with multiprocessing.get_context('fork').Pool(procs) as pool:
        return pool.map(fn, items, chunksize=max(1, len(items) // (procs * 4)))
