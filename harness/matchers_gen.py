"""Generated/Matchers.lean: the leaf matchers of the four transaction-context analyses and the helpers they call,
translated from the Python AST of /repo on every run (harness/pydo.py)."""
import ast
import inspect

from pydo import PyDo, Fn, Untranslatable, lean_str


def field_classes():
    from tealer.teal.instructions import transaction_field
    from tealer.teal import global_field
    out = set()
    for mod in (transaction_field, global_field):
        for n, c in vars(mod).items():
            if inspect.isclass(c): out.add(n)
    return out


def special_is_value_matches_key(tr, e):
    # is_value_matches_key(key, value[, FieldClass])
    if e.keywords or len(e.args) not in (2, 3): raise Untranslatable(tr.src(e))
    k, kt = tr.expr(e.args[0])
    v, vt = tr.expr(e.args[1])
    if kt != 'key' or vt != 'sv': raise Untranslatable(f"is_value_matches_key on {kt}, {vt}")
    if len(e.args) == 3:
        f, ft = tr.expr(e.args[2])
        if ft != 'field': raise Untranslatable(tr.src(e))
        fld = f"(some {f})"
    else:
        fld = "none"
    return (f"(Tealer.Generated.isValueMatchesKey E {k} {v} {fld})", 'bool')


def special_get_asserted_address(tr, e):
    # self._get_asserted_address(X.instruction): the translated function also takes str(X.instruction)
    if e.keywords or len(e.args) != 1: raise Untranslatable(tr.src(e))
    a = e.args[0]
    if not (isinstance(a, ast.Attribute) and a.attr == 'instruction'): raise Untranslatable(tr.src(e))
    c, t = tr.expr(a.value)
    if t != 'sv': raise Untranslatable(tr.src(e))
    return (f"(Tealer.Generated.addrAsserted {c}.instruction {c}.text)", 'strset')


def special_get_int_constant(tr, e):
    if e.keywords or len(e.args) != 1: raise Untranslatable(tr.src(e))
    c, t = tr.expr(e.args[0])
    if t != 'nat': raise Untranslatable(tr.src(e))
    return (f"(Tealer.PyView.intConstant (E.getIntConstant {c}))", ('tuple', ['bool', 'oiv']))


def gen_matchers():
    from tealer.utils import analyses as uan
    from tealer.utils.teal_enums import TealerTransactionType
    from tealer.analyses.dataflow.transaction_context import int_fields, fee_field, addr_fields, txn_types
    from tealer.analyses.dataflow.transaction_context.utils import group_helpers, key_helpers
    fcls = field_classes()
    errors = []
    out = ["/- REGENERATED on every run by harness/matchers_gen.py + harness/pydo.py: the leaf matchers of the transaction-context",
           "   analyses and the helpers they call, translated statement by statement from the Python AST of /repo. -/",
           "import TealerModel.PyView", "import TealerModel.Generated.Leaf", "set_option linter.unusedVariables false", "namespace Tealer.Generated", "",
           "/-- group_helpers.TransactionIndex(index_type, value), `index_type` by the number of the IndexType member -/",
           "structure GIndex where", "  indexType : Nat", "  value : Int", "deriving DecidableEq, Repr, Inhabited", ""]
    # the dictionary behind fee_field._mirrored_comparison
    names = {'Eq': '.eq', 'Neq': '.neq', 'Less': '.lt', 'LessE': '.le', 'Greater': '.gt', 'GreaterE': '.ge'}
    try:
        tbl = fee_field._MIRRORED_COMPARISON
        rows = []
        for k, v in tbl.items():
            if k.__name__ not in names or v.__name__ not in names: raise Untranslatable(f"_MIRRORED_COMPARISON: {k.__name__} -> {v.__name__}")
            rows.append(f"({names[k.__name__]}, {names[v.__name__]})")
        src = inspect.getsource(fee_field._mirrored_comparison)
        want = "mirrored = _MIRRORED_COMPARISON.get(type(ins))\n    return mirrored() if mirrored is not None else ins"
        if want not in src: raise Untranslatable("_mirrored_comparison is no longer the dictionary lookup with default")
        out += ["/-- fee_field._MIRRORED_COMPARISON, read from the module -/", "def mirrorTable : List (Tealer.Cmp × Tealer.Cmp) := [" + ", ".join(rows) + "]",
                "/-- fee_field._mirrored_comparison: `_MIRRORED_COMPARISON.get(type(ins))`, the instruction itself when absent -/",
                "def mirroredComparison (ins : Tealer.Op) : Tealer.Op :=",
                "  match ins with",
                "  | .cmp c => (match mirrorTable.find? (·.1 == c) with | some (_, m) => .cmp m | none => ins)",
                "  | _ => ins", ""]
    except Untranslatable as e:
        errors.append(str(e))
    index_type = {m.name: int(m.value) for m in group_helpers.IndexType}
    out += ["def IndexType_Self : Nat := %d" % index_type['Self'], "def IndexType_Absolute : Nat := %d" % index_type['Absolute'],
            "def IndexType_Relative : Nat := %d" % index_type['Relative'], "def IndexType_Unknown : Nat := %d" % index_type['Unknown'], ""]
    base_ctx = {
        'field_classes': fcls,
        'enum_classes': {'IndexType': index_type, 'TealerTransactionType': {m.name: int(m.value) for m in TealerTransactionType}},
        'names': {'ZERO_ADDRESS': ('Tealer.Generated.ZERO_ADDRESS', 'str'), 'SOME_ADDRESS': ('Tealer.Generated.SOME_ADDRESS', 'str'),
                  'CREATOR_ADDRESS': ('Tealer.Generated.CREATOR_ADDRESS', 'str'),
                  'APPLICATION_TRANSACTION_TYPES': ('Tealer.Generated.APPLICATION_TRANSACTION_TYPES', 'natlist'),
                  'TYPEENUM_TRANSACTION_TYPES': ('Tealer.Generated.TYPEENUM_TRANSACTION_TYPES', 'natlist')},
        'special': {'is_value_matches_key': special_is_value_matches_key, 'self._get_asserted_address': special_get_asserted_address,
                    'teal.get_int_constant': special_get_int_constant},
        'dropped_guards': ('not ins.bb or not ins.bb.teal',),
        'funcs': {},
    }
    funcs = base_ctx['funcs']

    def emit(pyfn, lean_name, params, ret, doc, extra=None):
        ctx = dict(base_ctx)
        if extra: ctx.update(extra)
        try:
            lines, fn = PyDo(ctx).function(pyfn, lean_name, params, ret, doc)
            out.extend(lines)
            return fn
        except Untranslatable as e:
            errors.append(f"{pyfn.__qualname__}: {e}")
            out.extend([f"-- {pyfn.__qualname__} could not be translated: {e}", ""])
            return None

    E = (None, 'E', 'env')
    # is_int_push_ins(ins): `teal = ins.bb.teal` is the Teal object the function belongs to
    class TealVar(PyDo):
        pass
    fn = emit(uan.is_int_push_ins, 'isIntPushIns', [E, ('ins', 'ins', 'op')], ('tuple', ['bool', 'oiv']),
              'translated from utils/analyses.py is_int_push_ins; `ins.bb.teal.get_int_constant` is `E.getIntConstant`',
              {'self_consts': {'ins.bb.teal': ('E', 'env')}, 'special': dict(base_ctx['special'], **{'teal.get_int_constant': special_get_int_constant})})
    if fn: funcs['is_int_push_ins'] = Fn('Tealer.Generated.isIntPushIns E', ['op'], fn.ret)
    fn = emit(group_helpers._get_index, 'getIndex', [E, ('index_stack_value', 'index_stack_value', 'sv')], 'index', 'translated from group_helpers._get_index')
    if fn: funcs['_get_index'] = Fn('Tealer.Generated.getIndex E', ['sv'], fn.ret)
    fn = emit(group_helpers.get_index_and_field, 'getIndexAndField', [E, ('value', 'value', 'sv')], ('tuple', ['bool', ('opt', 'index'), ('opt', 'field')]), 'translated from group_helpers.get_index_and_field')
    if fn: funcs['get_index_and_field'] = Fn('Tealer.Generated.getIndexAndField E', ['sv'], fn.ret)
    # is_value_matches_key(analysis_key, stack_value, key_field=None): keys are the model's structured `Key`
    kfuncs = {'is_gtxn_at_index_key': Fn('Tealer.PyView.keyIsAtIndex', ['key'], 'bool'),
              'is_absolute_index_key': Fn('Tealer.PyView.keyIsAbsolute', ['key'], 'bool'),
              'is_relative_index_key': Fn('Tealer.PyView.keyIsRelative', ['key'], 'bool'),
              'get_ind_base_for_gtxn_type_keys': Fn('Tealer.PyView.keyIndBase', ['key'], ('tuple', ['int', 'str']))}
    funcs.update(kfuncs)
    fn = emit(key_helpers.is_value_matches_key, 'isValueMatchesKey',
              [E, ('analysis_key', 'analysis_key', 'key'), ('stack_value', 'stack_value', 'sv'), ('key_field', 'key_field', ('opt', 'field'))], 'bool',
              'translated from key_helpers.is_value_matches_key (analysis keys are the structured keys of the model; a field class is its name)')
    for k in kfuncs: funcs.pop(k)
    SV = ('ins_stack_value', 'ins_stack_value', 'sv')
    KEY = ('key', 'key', 'key')
    SELF = ('self', 'self', 'env')          # `self` carries nothing the translation reads except class constants
    iconsts = {'self.UNIVERSAL_SETS[self.GROUP_SIZE_KEY]': ('Tealer.Generated.sizesU', 'natlist'),
               'self.UNIVERSAL_SETS[self.GROUP_INDEX_KEY]': ('Tealer.Generated.indicesU', 'natlist')}
    ifuncs = dict(funcs); ifuncs['self._get_asserted_int_values'] = Fn('Tealer.Generated.intAssertedValues', ['cmp', 'nat', 'natlist'], 'natlist')
    pair = lambda t: ('tuple', [t, t])
    emit(int_fields.GroupIndices._get_asserted_groupsizes, 'getAssertedGroupsizes', [E, ('self', 'self', 'env'), SV], pair('natset'),
         'translated from int_fields.GroupIndices._get_asserted_groupsizes', {'self_consts': iconsts, 'funcs': ifuncs})
    emit(int_fields.GroupIndices._get_asserted_groupindices, 'getAssertedGroupindices', [E, ('self', 'self', 'env'), SV], pair('natset'),
         'translated from int_fields.GroupIndices._get_asserted_groupindices', {'self_consts': iconsts, 'funcs': ifuncs})
    ffuncs = dict(funcs); ffuncs['self._get_asserted_max_value'] = Fn('Tealer.Generated.feeAssertedMax', ['cmp', 'fee'], pair('fee'))
    ffuncs['_mirrored_comparison'] = Fn('Tealer.Generated.mirroredComparison', ['op'], 'op')
    emit(fee_field.FeeField._get_asserted_fee, 'getAssertedFee', [E, SELF, KEY, SV], pair('fee'),
         'translated from fee_field.FeeField._get_asserted_fee', {'funcs': ffuncs})
    emit(addr_fields.AddrFields._get_asserted_txn_gtxn, 'getAssertedTxnGtxn', [E, SELF, KEY, SV], pair('strset'),
         'translated from addr_fields.AddrFields._get_asserted_txn_gtxn',
         {'inline': {'self._universal_set': ('(Tealer.OSet.ofList [Tealer.Generated.ANY_ADDRESS])', 'strset'),
                     'self._null_set': ('(Tealer.OSet.ofList [Tealer.Generated.NO_ADDRESS])', 'strset')}})
    tfuncs = dict(funcs)
    tfuncs['transaction_type_to_tealer_type'] = Fn('Tealer.PyView.lookupEnum Tealer.Generated.typeEnumTable Tealer.Generated.typeEnumNames', ['oiv'], 'nat', raises=True)
    tfuncs['oncompletion_to_tealer_type'] = Fn('Tealer.PyView.lookupEnum Tealer.Generated.oncompletionTable Tealer.Generated.oncompletionNames', ['oiv'], 'nat', raises=True)
    emit(txn_types.TxnType._get_asserted_transaction_types, 'getAssertedTransactionTypes', [E, SELF, KEY, SV], pair('natset'),
         'translated from txn_types.TxnType._get_asserted_transaction_types (a KeyError of the two enum conversions is `none`)',
         {'self_consts': {'self.UNIVERSAL_SETS[self.TRANSACTION_TYPE_KEY]': ('Tealer.Generated.txnTypeU', 'natlist')}, 'funcs': tfuncs})
    return "\n".join(out + ["end Tealer.Generated", ""]), errors


if __name__ == '__main__':
    import sys
    sys.path.insert(0, '/verif/harness')
    text, errs = gen_matchers()
    print(text)
    print(errs, file=sys.stderr)
