#!/bin/bash
# MANIFEST.setup_cmd: build the Lean model, its theorems and the driver from files on disk (offline)
set -e
cd "$(dirname "$0")/lean"
lake build TealerModel tmdrv 2>&1 | tail -5
test -x .lake/build/bin/tmdrv
